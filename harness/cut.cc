// Process-wide trap recovery state shared by all translation units of the harness.
#include "cut.hpp"
#include "registry.hpp"

DecConsts g_dc;
bool g_fuzz_mode = false;
std::vector<Clause>& registry() { static std::vector<Clause> r; return r; }

sigjmp_buf g_jb;
volatile sig_atomic_t g_in_call = 0;
char g_trap_why[256];

// libstdc++ assertion hook: the sanitized objects are built with -D_GLIBCXX_ASSERTIONS, so an
// out-of-range std::array index lands here instead of reading out of bounds.
namespace std {
  void __glibcxx_assert_fail(const char* file, int line, const char* /*func*/, const char* cond) noexcept
  {
    const char* b = file ? file : "?";
    for (const char* p = b; *p; ++p) if (*p == '/') b = p + 1;
    snprintf(g_trap_why, sizeof g_trap_why, "assert(%s) %s:%d", cond ? cond : "?", b, line);
    if (g_in_call) siglongjmp(g_jb, 2);
    fprintf(stderr, "harness: libstdc++ assertion outside a CUT call: %s\n", g_trap_why);
    abort();
  }
}

static void cut_on_signal(int s)
{
  if (g_in_call) { snprintf(g_trap_why, sizeof g_trap_why, "signal %d (%s)", s, s == SIGFPE ? "SIGFPE" : s == SIGSEGV ? "SIGSEGV" : s == SIGILL ? "SIGILL" : s == SIGBUS ? "SIGBUS" : s == SIGABRT ? "SIGABRT" : "?"); siglongjmp(g_jb, 1); }
  signal(s, SIG_DFL); raise(s);
}

void cut_install_handlers()
{
  struct sigaction sa; memset(&sa, 0, sizeof sa);
  sa.sa_handler = cut_on_signal; sa.sa_flags = SA_NODEFER;
  for (int s : { SIGFPE, SIGSEGV, SIGILL, SIGBUS, SIGABRT }) sigaction(s, &sa, nullptr);
}

