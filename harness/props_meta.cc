// C07 no undefined behaviour / traps / out-of-bounds reads; C08 results independent of the build.
#include "registry.hpp"
#include "model.hpp"
#include "meta.hpp"

static std::vector<std::string> split_sig(const char* s) { std::vector<std::string> v; std::string cur; for (const char* p = s; *p; ++p) { if (*p == ',') { v.push_back(cur); cur.clear(); } else cur.push_back(*p); } if (!cur.empty()) v.push_back(cur); return v; }
const std::vector<std::vector<std::string>>& entry_args()
{
  static std::vector<std::vector<std::string>> v; if (v.empty()) for (int i = 0; i < E_COUNT; ++i) v.push_back(split_sig(g_sigs[i].args)); return v;
}
// Entry points are identified in arguments / replay files by a stable hash of their name, so saved
// cases survive additions to the inventory.
int64_t entry_key(int id) { uint64_t h = 1469598103934665603ull; for (const char* p = g_sigs[id].name; *p; ++p) { h ^= (unsigned char)*p; h *= 1099511628211ull; } return (int64_t)(h & 0x7fffffffffffffffull); }
int entry_from_key(int64_t k) { static std::unordered_map<int64_t, int> m; if (m.empty()) for (int i = 0; i < E_COUNT; ++i) m[entry_key(i)] = i; auto it = m.find(k); return it == m.end() ? -1 : it->second; }
static const char* base_name(const char* f) { const char* b = f ? f : "?"; for (const char* p = b; *p; ++p) if (*p == '/') b = p + 1; return b; }

enum Tok { T_X, T_SH, T_DEG, T_T8, T_T16, T_N, T_F32, T_F64, T_INT };
struct ETok { int n; Tok t[3]; int ti[3]; };
static const ETok& entry_toks(int id)
{
  static std::vector<ETok> v;
  if (v.empty()) { for (int i = 0; i < E_COUNT; ++i) { ETok e; e.n = 0; for (const std::string& s : entry_args()[i]) { if (e.n >= 3) break; Tok t = s == "x" ? T_X : s == "sh" ? T_SH : s == "deg" ? T_DEG : s == "t8" ? T_T8 : s == "t16" ? T_T16 : s == "n" ? T_N : s == "f32" ? T_F32 : s == "f64" ? T_F64 : T_INT; e.t[e.n] = t; e.ti[e.n] = t == T_INT ? itype_index(s.c_str()) : -1; ++e.n; } v.push_back(e); } }
  return v[id];
}
static bool tok_arg_ok(Tok t, int64_t v)
{
  switch (t) { case T_X: return v != INT64_MIN; case T_SH: return v >= INT32_MIN && v <= 63; case T_DEG: return v >= INT32_MIN && v <= INT32_MAX; case T_T8: return v >= 0 && v <= 255; case T_T16: return v >= 0 && v <= 360; case T_N: return v >= 0 && v <= 64; case T_F32: return v >= 0 && v <= 0xffffffffll; default: return true; }
}
static bool tok_nontrivial(Tok t, int ti, int64_t v)
{
  switch (t) {
    case T_X: return m_isnan(v) || iabs128(v) >= ((i128)1 << 46);
    case T_SH: return v < 0 || v >= 48;
    case T_DEG: return v < 0 || v > 360;
    case T_F32: { float f = bits_f32((uint32_t)v); return !(std::fabs(f) < 2147483647.0f); }
    case T_F64: { double f = bits_f64((uint64_t)v); return !(std::fabs(f) < 2147483647.0); }
    case T_T8: case T_T16: case T_N: return true;
    case T_INT: { i128 n = tval(ITYPES[ti], v); return n == 0 || n == -1 || n == 1 || iabs128(n) >= ((i128)1 << 31); }
  }
  return false;
}
// is `v` an admissible value for an argument of type token `tok` (C07 domain: any finite or NaN
// fixed_t, any value of an integral or floating type, shift counts in [INT_MIN, 63])
static bool c07_arg_ok(const std::string& tok, int64_t v)
{
  if (tok == "x") return v != INT64_MIN;
  if (tok == "sh") return v >= INT32_MIN && v <= 63;
  if (tok == "deg") return v >= INT32_MIN && v <= INT32_MAX;
  if (tok == "t8") return v >= 0 && v <= 255;
  if (tok == "t16") return v >= 0 && v <= 360;
  if (tok == "n") return v >= 0 && v <= 64;
  if (tok == "f32") return v >= 0 && v <= 0xffffffffll;
  return true;   // integral patterns and f64 bit patterns: every value
}
static bool c07_nontrivial(const std::string& tok, int64_t v)
{
  if (tok == "x") return m_isnan(v) || iabs128(v) >= ((i128)1 << 46);
  if (tok == "sh") return v < 0 || v >= 48;
  if (tok == "deg") return v < 0 || v > 360;
  if (tok == "f32") { float f = bits_f32((uint32_t)v); return !(std::fabs(f) < 2147483647.0f); }
  if (tok == "f64") { double f = bits_f64((uint64_t)v); return !(std::fabs(f) < 2147483647.0); }
  if (tok == "t8" || tok == "t16" || tok == "n") return true;
  int ti = itype_index(tok.c_str()); if (ti >= 0) { i128 n = tval(ITYPES[ti], v); return n == 0 || n == -1 || n == 1 || iabs128(n) >= ((i128)1 << 31); }
  return false;
}
static void c07_check(Ctx& ctx, const Args& a)
{
  if (a.size() != 4) { ctx.skip(); return; }
  int id = entry_from_key(a[0]); if (id < 0) { ctx.skip(); return; }
  const ETok& sig = entry_toks(id);
  for (int i = 0; i < sig.n; ++i) if (!tok_arg_ok(sig.t[i], a[1 + i])) { ctx.skip(); return; }
  for (int i = sig.n; i < 3; ++i) if (a[1 + i] != 0) { ctx.skip(); return; }
  bool nt = false; for (int i = 0; i < sig.n; ++i) nt = nt || tok_nontrivial(sig.t[i], sig.ti[i], a[1 + i]);
  if (nt) ctx.nontriv();
  ctx.cls(g_sigs[id].name);
  for (size_t ci = 0; ci < ctx.cuts.size(); ++ci) {
    int64_t v; if (!ctx.call(ci, id, a[1], a[2], a[3], v)) continue;     // a trap is reported by call()
    const Cut& cu = ctx.cuts[ci]; if (!cu.sanitized) continue;
    int n = cu.ub_count(); const CutUbEvent* ev = cu.ub_events();
    for (int k = 0; k < n && k < 16; ++k) {
      const char* fb = base_name(ev[k].file);
      if (!strcmp(fb, "entries.def") || !strcmp(fb, "cut_main.cc") || !strcmp(fb, "cut_helpers.h")) { ++ctx.extra["events-in-wrapper-code"]; continue; }
      ctx.fail(ci, strf("%s(%" PRId64 ",%" PRId64 ",%" PRId64 "): undefined behaviour %s at %s:%u:%u", g_sigs[id].name, a[1], a[2], a[3], ev[k].kind, fb, ev[k].line, ev[k].col), ev[k].kind, fb, (int)ev[k].line);
    }
  }
}
// generic argument generator by type token; NaN and the limit band are over-weighted for C07
static int64_t c07_gen_arg(Dec& d, const std::string& tok)
{
  if (tok == "x") { uint64_t s = d.u64(); int64_t v = dec_raw(d); if (s % 5 == 0) return (s >> 8) & 1 ? NANN : NANP; if (s % 5 == 1) { int64_t w = MAXF - (int64_t)((s >> 8) % 140000); return (s >> 40) & 1 ? -w : w; } return v; }
  if (tok == "sh") return dec_shift(d);
  if (tok == "deg") return dec_deg(d);
  if (tok == "t8") return (int64_t)(d.u64() % 256);
  if (tok == "t16") return (int64_t)(d.u64() % 361);
  if (tok == "n") return (int64_t)(d.u64() % 65);
  if (tok == "f32") return (int64_t)dec_f32(d);
  if (tok == "f64") return (int64_t)dec_f64(d);
  int ti = itype_index(tok.c_str()); if (ti >= 0) return dec_int(d, ITYPES[ti]);
  return 0;
}
static Args c07_decode(Ctx& ctx, Dec& d)
{
  // one case in four borrows the targeted generator of a property clause (planted windows, result-targeted pairs)
  { uint64_t sel = d.u64(); static const char* borrow[] = { "C14.hypot", "C11.atan2", "C03.divff", "C03.divint", "C02.mulff", "C02.mulint", "C01.addsub", "C18.shift", "C15.floorceil", "C13.sqrtrc", "C10.rel", "C16.int" };
    if (sel % 4 == 0) { const char* cid = borrow[(sel >> 8) % 12]; for (const Clause& c : registry()) if (!strcmp(c.id, cid) && c.decode) { Args ca = c.decode(ctx, d); int id; int64_t x, y, z; if (ce_map(cid, ca, id, x, y, z)) return { entry_key(id), x, y, z }; break; } } }
  int id = (int)d.range(0, E_COUNT - 1); const auto& sig = entry_args()[id]; Args a = { entry_key(id), 0, 0, 0 };
  for (size_t i = 0; i < sig.size() && i < 3; ++i) a[1 + i] = c07_gen_arg(d, sig[i]);
  return a;
}
static Reg r_c07({ "C07.entry", "C07", "rc",
  "(one case in four uses the targeted generator of a property clause - planted hypot / atan2 / division windows, result-targeted pairs) (entry point, arguments) over the whole inventory of cut/entries.def (every operator for every operand type in both orders and compound forms, conversions, shifts, floor/ceil, sqrt (both algorithms), hypot, sin, cos, tan, atan, atan2, asin, acos, *_angle<T>, angle_to_radians<T>, the compiled table functions): fixed_t arguments incl. +-NaN (1/5) and the band within 140000 raw of +-MAXF (1/5), integral arguments over the full type range, float/double bit patterns incl. non-finite, shift counts in [INT_MIN, 63], 32-bit degrees; monitored on the sanitized builds (GCC and Clang, -O0/-O1, both sqrt algorithms): harness-owned UBSan handlers (signed overflow, shift, division, float cast, bounds, ...), the libstdc++ assertion hook (std::array index), and signal recovery (SIGFPE/SIGSEGV/SIGILL/SIGABRT); a finding is identified by its site (kind, file, line); non-trivial = an argument that is NaN, >= 2^46 in magnitude, a negative or >= 48 shift count, degrees outside [0,360], a non-finite/out-of-range float, an integer in {0,+-1} or >= 2^31, or a table index",
  c07_check, 64, c07_decode, nullptr });
static Reg r_c07_trap({ "C07.trap", "C07", "rc",
  "same generator as C07.entry, run against the optimised builds exactly as a user compiles them (no sanitizer): only traps are observable (a call that does not return: SIGFPE, SIGSEGV, SIGILL, SIGABRT)",
  c07_check, 64, c07_decode, nullptr });

// ================================================================ C08
// Domain on which each function is defined (from the owning property): maximal bit length of
// fixed_t arguments; 0 = any finite value. Everything else (integers, floats, counts) is total.
int c08_maxbits(int id)
{
  const char* n = g_sigs[id].name;
  auto is = [&](const char* p) { return !strncmp(n, p, strlen(p)); };
  if (!strcmp(n, "sin") || !strcmp(n, "cos")) return 62; // C09: values below 2^46 = raw below 2^62
  if (is("sina_x") || is("cosa_x")) return 46;
  if (!strcmp(n, "tan") || is("tana_x")) return 62;
  if (!strcmp(n, "atan") || !strcmp(n, "atan2") || !strcmp(n, "hypot") || !strcmp(n, "atan_index_aprox") || !strcmp(n, "atan_aprox")) return 47;
  if (!strcmp(n, "sqrt") || !strcmp(n, "sqrt_abacus") || !strcmp(n, "sqrt_std")) return 47;
  if (!strcmp(n, "asin") || !strcmp(n, "acos")) return 17;    // mostly inside [-1, 1], where the functions do something
  if (!strcmp(n, "sqrt_aprox")) return 37;
  if (!strcmp(n, "hypot_aprox")) return 22;
  if (!strcmp(n, "ceil")) return 62;
  return 63;
}
static bool c08_uses_sqrt(int id) { return !strcmp(g_sigs[id].flags, "CESQ"); }
// entries whose owning property (C06, C18) defines them on the NaN sentinels as well
static bool c08_nan_ok(int id) { return id == E_eq || id == E_ne || id == E_lt || id == E_le || id == E_gt || id == E_ge || id == E_isnan || id == E_neg || id == E_abs || id == E_band; }
bool c08_arg_ok(int id, size_t i, const std::string& tok, int64_t v)
{
  if (tok == "x" && c08_nan_ok(id)) return v != INT64_MIN;
  if (tok == "x") { if (!m_finite128(v)) return false; int mb = c08_maxbits(id); if (mb < 63 && iabs128(v) >= ((i128)1 << mb)) return false; return true; }
  if (tok == "deg") return v >= INT32_MIN && v <= INT32_MAX;
  const char* n = g_sigs[id].name;
  if ((!strncmp(n, "sina_", 5) || !strncmp(n, "cosa_", 5) || !strncmp(n, "tana_", 5)) && i == 0 && tok != "x") {   // degrees: keep the radian argument inside the trig domain
    if (tok == "f32") { float f = bits_f32((uint32_t)v); return std::fabs(f) <= 1048576.0f; }
    int ti = itype_index(tok.c_str()); if (ti >= 0) return iabs128(tval(ITYPES[ti], v)) <= 1048576;
  }
  return c07_arg_ok(tok, v);
}
static void c08_check(Ctx& ctx, const Args& a)
{
  if (a.size() != 4) { ctx.skip(); return; }
  int id = entry_from_key(a[0]); if (id < 0) { ctx.skip(); return; }
  const auto& sig = entry_args()[id];
  if (id == E_k_sqrt_ce) { ctx.skip(); return; }     // reports the configuration itself, differs by design
  for (size_t i = 0; i < sig.size(); ++i) if (!c08_arg_ok(id, i, sig[i], a[1 + i])) { ctx.skip(); return; }
  for (size_t i = sig.size(); i < 3; ++i) if (a[1 + i] != 0) { ctx.skip(); return; }
  bool nt = false; for (size_t i = 0; i < sig.size(); ++i) nt = nt || c07_nontrivial(sig[i], a[1 + i]) || (sig[i] == "x" && iabs128(a[1 + i]) >= ((i128)1 << 30));
  ctx.cls(g_sigs[id].name);
  bool sq = c08_uses_sqrt(id);
  int64_t ref[2] = { 0, 0 }; bool have[2] = { false, false }; size_t refci[2] = { 0, 0 };
  for (size_t ci = 0; ci < ctx.cuts.size(); ++ci) {
    int64_t v; if (!ctx.call(ci, id, a[1], a[2], a[3], v)) continue;
    int g = sq && ctx.cuts[ci].abacus ? 1 : 0;
    if (!have[g]) { have[g] = true; ref[g] = v; refci[g] = ci; if (m_isnan(v) && !strcmp(g_sigs[id].ret, "x")) nt = true; }
    else if (v != ref[g]) ctx.fail(ci, strf("%s(%" PRId64 ",%" PRId64 ",%" PRId64 ") = %" PRId64 " on %s but %" PRId64 " on %s", g_sigs[id].name, a[1], a[2], a[3], v, ctx.cuts[ci].name.c_str(), ref[g], ctx.cuts[refci[g]].name.c_str()));
  }
  if (nt) ctx.nontriv();
  // the two square-root algorithms never differ by more than one ulp (argument in [0, 2^31))
  if (id == E_sqrt_abacus && a[1] >= 0) {
    for (size_t ci = 0; ci < ctx.cuts.size(); ++ci) { int64_t s1, s2; if (ctx.call(ci, E_sqrt_abacus, a[1], s1) && ctx.call(ci, E_sqrt_std, a[1], s2) && (s1 - s2 > 1 || s2 - s1 > 1)) ctx.fail(ci, strf("sqrt_abacus(%" PRId64 ") = %" PRId64 " and sqrt_std_math = %" PRId64 " differ by more than one ulp", a[1], s1, s2)); }
    ctx.cls("cross-algorithm");
  }
}
Args c08_decode(Ctx&, Dec& d)
{
  // the k_* constants take no arguments; they are compared once by C08.consts
  int id = (int)d.range(E_k_sqrt_ce + 1, E_COUNT - 1); const auto& sig = entry_args()[id]; Args a = { entry_key(id), 0, 0, 0 };
  int mb = c08_maxbits(id); const char* n = g_sigs[id].name;
  bool degfn = (!strncmp(n, "sina_", 5) || !strncmp(n, "cosa_", 5) || !strncmp(n, "tana_", 5));
  for (size_t i = 0; i < sig.size() && i < 3; ++i) {
    const std::string& t = sig[i];
    if (t == "x" && c08_nan_ok(id)) { a[1 + i] = dec_rawnan(d, 5); continue; }
    if (t == "x") { int64_t v = dec_raw(d, mb); if (!strncmp(n, "sqrt", 4) && (d.u64() % 8)) v = v < 0 ? -v : v; a[1 + i] = v; }
    else if (degfn && i == 0) { int64_t deg = (int64_t)(d.u64() % 2001) - 1000; uint64_t u = d.u64(); if (u % 4 == 0) deg = (int64_t)(u >> 8) % 1048576;
      if (t == "f32") a[1 + i] = (int64_t)f32_bits((float)deg + ((u >> 40) % 4 == 0 ? 0.5f : 0.0f));
      else { int ti = itype_index(t.c_str()); i128 lo = tmin(ITYPES[ti]), hi = tmax(ITYPES[ti]); i128 dv = deg; if (dv < lo) dv = lo; if (dv > hi) dv = hi; a[1 + i] = (int64_t)dv; } }
    else a[1 + i] = c07_gen_arg(d, t) ;
    if (t == "x" && !m_finite128(a[1 + i])) a[1 + i] = MAXF;
  }
  return a;
}
static void c08_consts_check(Ctx& ctx, const Args& a)
{
  int id = a.size() == 1 ? entry_from_key(a[0]) : -1; if (id < 0 || id >= E_k_sqrt_ce) { ctx.skip(); return; }
  ctx.nontriv(); ctx.cls(g_sigs[id].name); int64_t ref = 0;
  for (size_t ci = 0; ci < ctx.cuts.size(); ++ci) { int64_t v; if (!ctx.call(ci, id, 0, v)) continue; if (ci == 0) ref = v; else if (v != ref) ctx.fail(ci, strf("constant %s = %" PRId64 " on %s but %" PRId64 " on %s", g_sigs[id].name, v, ctx.cuts[ci].name.c_str(), ref, ctx.cuts[0].name.c_str())); }
}
static SweepInfo c08_consts_sweep(Ctx& ctx, const Clause& cl) { SweepInfo si; si.exhaustive = true; si.note = "the exported library constants"; if (ctx.worker == 0) for (int i = 0; i < E_k_sqrt_ce; ++i) ctx.evaluate(cl, { entry_key(i) }); return si; }
static Reg r_c08c({ "C08.consts", "C08", "sweep", "the library constants the oracles read (phi, pi/2, pi/4, 2pi, max, lowest, NaN, one, fixtorad_r) are identical on every build configuration", c08_consts_check, 0, nullptr, c08_consts_sweep });
static Reg r_c08({ "C08.diff", "C08", "rc",
  "(entry point, arguments) over the whole inventory, arguments restricted to the domain on which the owning property defines the function (finite operands - plus the NaN sentinels for comparisons, isnan, negation, abs and &; |x| < 2^46 for sin/cos, < 2^62 for tan, < 2^47 for atan/atan2/hypot/sqrt; degrees within +-2^20); oracle (differential): the result is bit-identical on every loaded build configuration (GCC and Clang, -O0..-O3, c++17/c++20/c++2b) - functions that reach sqrt() are compared within the group that selects the same algorithm - and |sqrt_abacus(x) - sqrt_std_math(x)| <= 1 ulp; non-trivial = an argument with |raw| >= 2^30, a NaN result, an integer in {0,+-1} or >= 2^31, a negative/large shift count, out-of-range floats",
  c08_check, 24, c08_decode, nullptr });
