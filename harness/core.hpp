// Harness core: per-worker context, case evaluation, known-finding matching, evidence counters.
#pragma once
#include "cut.hpp"
#include <cstdint>
#include <cstdarg>
#include <cinttypes>
#include <map>
#include <set>
#include <string>
#include <vector>
#include <algorithm>
#include <functional>

typedef __int128 i128;
typedef unsigned __int128 u128;
typedef std::vector<int64_t> Args;

static inline std::string strf(const char* fmt, ...)
{
  char buf[1024]; va_list ap; va_start(ap, fmt); vsnprintf(buf, sizeof buf, fmt, ap); va_end(ap); return buf;
}
static inline std::string i128s(i128 v)
{
  if (v == 0) return "0";
  bool neg = v < 0; u128 u = neg ? (u128)(-(v + 1)) + 1 : (u128)v; std::string s;
  while (u) { s.push_back(char('0' + (int)(u % 10))); u /= 10; }
  if (neg) s.push_back('-');
  std::reverse(s.begin(), s.end()); return s;
}
static inline std::string jesc(const std::string& s)
{
  std::string o; for (char ch : s) { if (ch == '"' || ch == '\\') { o.push_back('\\'); o.push_back(ch); } else if ((unsigned char)ch < 32) o += strf("\\u%04x", ch); else o.push_back(ch); } return o;
}
static inline uint64_t mix64(uint64_t x) { x += 0x9e3779b97f4a7c15ull; x = (x ^ (x >> 30)) * 0xbf58476d1ce4e5b9ull; x = (x ^ (x >> 27)) * 0x94d049bb133111ebull; return x ^ (x >> 31); }

// ---------------------------------------------------------------- known findings
// One line per entry (written by the driver from known_findings.jsonl):
//   <property> <clause-prefix|*> <cfg-substring|*> box  <nranges> { <argidx> <A|R> <lo> <hi> }...
//   <property> <clause-prefix|*> <cfg-substring|*> site <kind> <file-basename> <line>
// A = range on |arg|, R = range on arg. Only status "known" entries are passed; "fixed" ones
// suppress nothing and never reach the workers.
struct KfRange { int idx; bool abs; int64_t lo, hi; };
struct KnownFinding {
  int index; std::string property, clause, cfg, kind; std::vector<KfRange> box;
  std::string site_kind, site_file; int site_line = 0;
  uint64_t hits = 0;
};

struct Clause;
struct Ctx;
struct Dec;
typedef void (*CheckFn)(Ctx&, const Args&);
struct SweepInfo { bool exhaustive = false; std::string note; };

struct Clause {
  const char* id;        // e.g. "C01.addsub"
  const char* property;  // e.g. "C01"
  const char* engine;    // "rc" (random words decoded into a case, rapidcheck shrinking) or "sweep"
  const char* desc;      // domain + oracle + non-trivial rule, for the evidence file
  CheckFn check;         // the oracle: a pure function of the integer arguments
  int nwords;                                   // rc: number of random words per case
  Args (*decode)(Ctx&, Dec&);                   // rc: words -> arguments (by construction, no rejection)
  SweepInfo (*sweep)(Ctx&, const Clause&);      // sweep: enumerator (uses ctx.worker/nworkers/tier/seed)
};

struct SampleCall { std::string cfgs; std::string fn; Args in; std::string out; };
struct Sample { Args args; bool nontrivial; std::vector<std::string> classes; std::vector<std::string> calls; std::string expect; };

struct Failure { bool set = false; std::string clause; Args args; std::string cfg, what; };

struct HashSet64 {            // open addressing, fixed capacity, counts distinct keys up to cap
  std::vector<uint64_t> t; size_t used = 0; bool capped = false;
  explicit HashSet64(size_t cap_pow2 = 1u << 22) : t(cap_pow2, 0) {}
  void insert(uint64_t h)
  {
    if (h == 0) h = 1;
    if (used * 2 >= t.size()) { capped = true; return; }
    size_t m = t.size() - 1, i = (size_t)h & m;
    while (t[i] != 0) { if (t[i] == h) return; i = (i + 1) & m; }
    t[i] = h; ++used;
  }
};

struct Ctx {
  std::vector<Cut> cuts;
  std::vector<KnownFinding> kfs;
  // run parameters
  std::string tier = "quick"; uint64_t seed = 0; int worker = 0, nworkers = 1; uint64_t ncases = 1000;
  bool replay_mode = false;
  // per-case state
  const Clause* cl = nullptr; const Args* args = nullptr;
  bool case_failed = false, case_skip = false, case_nontrivial = false, sampling = false;
  std::vector<const char*> case_classes; std::string case_expect; std::vector<std::string> case_calls;
  // accumulators
  uint64_t bulk_evals = 0, bulk_nontrivial = 0;   // fast-path sweep cases (distinct by construction), not routed through evaluate()
  uint64_t evals = 0, executions = 0, nontrivial = 0, skipped = 0, excluded_known = 0, failing_evals = 0, evals_after_failure = 0;
  std::unordered_map<const char*, uint64_t> classes_p;   // keyed by literal address; merged by text on output
  std::map<std::string, uint64_t> classes_merged() const { std::map<std::string, uint64_t> m; for (auto& kv : classes_p) m[kv.first] += kv.second; return m; }
  HashSet64 distinct;     // capacity is raised for the thorough tier by main()
  std::vector<Sample> samples; uint64_t sample_stride = 0;
  Failure fail_first, fail_last;     // first = as found, last = last failing evaluation (the shrunk case under rapidcheck)
  std::map<std::string, uint64_t> extra;       // free-form counters
  std::map<std::string, long double> maxima;   // worst observed error per label (for the evidence)
  bool stop_requested = false;

  void cls(const char* c) { case_classes.push_back(c); }   // c must have static storage duration
  void nontriv() { case_nontrivial = true; }
  void skip() { case_skip = true; }
  bool verbose() const { return sampling || replay_mode; }
  void expect(const std::string& s) { if (sampling || replay_mode) case_expect = s; }
  void worst(const char* label, long double v) { auto it = maxima.find(label); if (it == maxima.end()) maxima[label] = v; else if (v > it->second) it->second = v; }

  // call into configuration ci; a trap is reported as a failure of the running clause
  bool call(size_t ci, int id, int64_t a, int64_t b, int64_t c, int64_t& out)
  {
    const Cut& cu = cuts[ci];
    if (cu.sanitized) cu.ub_reset();
    CallResult r = cut_call(cu, id, a, b, c);
    ++executions;
    if (sampling || replay_mode) case_calls.push_back(strf("%s %s(%" PRId64 ",%" PRId64 ",%" PRId64 ") -> %s", cu.name.c_str(), g_sigs[id].name, a, b, c, r.trap ? g_trap_why : strf("%" PRId64, r.v).c_str()));
    if (r.trap) { fail(ci, strf("%s(%" PRId64 ",%" PRId64 ",%" PRId64 ") did not return: %s", g_sigs[id].name, a, b, c, g_trap_why), "trap", g_trap_why, 0); return false; }
    out = r.v; return true;
  }
  bool call(size_t ci, int id, int64_t a, int64_t& out) { return call(ci, id, a, 0, 0, out); }
  bool call(size_t ci, int id, int64_t a, int64_t b, int64_t& out) { return call(ci, id, a, b, 0, out); }

  bool kf_match(const KnownFinding& k, const std::string& cfgname, const char* site_kind, const char* site_file, int site_line) const
  {
    if (k.property != cl->property) return false;
    if (k.clause != "*" && strncmp(cl->id, k.clause.c_str(), k.clause.size()) != 0) return false;
    if (k.cfg != "*" && cfgname.find(k.cfg) == std::string::npos) return false;
    if (k.kind == "site") {
      if (!site_kind) return false;
      return (k.site_kind == "*" || k.site_kind == site_kind) && k.site_file == site_file && k.site_line == site_line;
    }
    for (const KfRange& r : k.box) {
      if (r.idx < 0 || (size_t)r.idx >= args->size()) return false;
      int64_t v = (*args)[r.idx];
      if (r.abs) { if (v == INT64_MIN) return false; if (v < 0) v = -v; }
      if (v < r.lo || v > r.hi) return false;
    }
    return true;
  }

  // Report a failure of the running case on configuration ci. Returns true if it was matched by a
  // listed known finding (the search then continues), false if it is a new violation.
  bool fail(size_t ci, const std::string& what, const char* site_kind = nullptr, const char* site_file = nullptr, int site_line = 0)
  {
    const std::string& cfgname = ci < cuts.size() ? cuts[ci].name : std::string("*");
    for (KnownFinding& k : kfs) if (kf_match(k, cfgname, site_kind, site_file, site_line)) { ++k.hits; ++excluded_known; return true; }
    if (!case_failed) {
      case_failed = true;
      Failure f; f.set = true; f.clause = cl->id; f.args = *args; f.cfg = cfgname; f.what = what;
      if (!fail_first.set) fail_first = f;
      fail_last = f;
    }
    return false;
  }

  // Evaluate one case. Returns true when the case passed (or was excluded / skipped).
  bool evaluate(const Clause& c, const Args& a)
  {
    cl = &c; args = &a; case_failed = false; case_skip = false; case_nontrivial = false;
    case_classes.clear(); case_expect.clear(); case_calls.clear();
    ++evals; if (fail_first.set) ++evals_after_failure;
    sampling = !replay_mode && (evals <= 3 || (sample_stride && evals % sample_stride == 0)) && samples.size() < 40;
    c.check(*this, a);
    if (case_skip) { ++skipped; return true; }
    for (const char* s : case_classes) ++classes_p[s];
    if (case_nontrivial) {
      ++nontrivial;
      uint64_t h = mix64(std::hash<std::string>()(c.id));
      for (int64_t v : a) h = mix64(h ^ (uint64_t)v);
      distinct.insert(h);
    }
    if (sampling) { Sample s; s.args = a; s.nontrivial = case_nontrivial; for (const char* q : case_classes) s.classes.emplace_back(q); s.calls = case_calls; s.expect = case_expect; if (s.calls.size() > 12) s.calls.resize(12); samples.push_back(std::move(s)); }
    if (case_failed) { ++failing_evals; return false; }
    return true;
  }
};

// Greedy integer shrinker for sweep / fuzz failures: towards zero, keeping "fails and is not a
// listed known finding" (evaluate() already excludes known findings).
static inline Args shrink_ints(Ctx& ctx, const Clause& c, Args a, int budget = 4000)
{
  auto fails = [&](const Args& x) { Failure keep1 = ctx.fail_first, keep2 = ctx.fail_last; bool ok = ctx.evaluate(c, x); if (ok) { ctx.fail_first = keep1; ctx.fail_last = keep2; } return !ok; };
  bool progress = true;
  while (progress && budget > 0) {
    progress = false;
    for (size_t i = 0; i < a.size() && budget > 0; ++i) {
      int64_t v = a[i]; if (v == 0) continue;
      std::vector<int64_t> cand = { 0, v / 2, v - (v > 0 ? 1 : -1), (int64_t)((uint64_t)v & ((uint64_t)v - 1)), v > 0 ? v : (v == INT64_MIN ? v : -v), v / 65536 * 65536 };
      for (int64_t cv : cand) {
        if (cv == v) continue;
        i128 acv = cv < 0 ? -(i128)cv : (i128)cv, av = v < 0 ? -(i128)v : (i128)v;
        if (!(acv < av || (acv == av && cv > 0 && v < 0))) continue;
        Args t = a; t[i] = cv; --budget;
        if (fails(t)) { a = t; progress = true; break; }
      }
    }
  }
  return a;
}

// ---------------------------------------------------------------- result file
static inline std::string args_json(const Args& a)
{
  std::string s = "["; for (size_t i = 0; i < a.size(); ++i) { if (i) s += ","; s += strf("%" PRId64, a[i]); } return s + "]";
}
static inline void write_result(Ctx& ctx, const Clause& c, const std::string& path, double wall_s, bool exhaustive, const std::string& note)
{
  FILE* f = fopen(path.c_str(), "w"); if (!f) { perror(path.c_str()); exit(2); }
  fprintf(f, "{\n \"clause\": \"%s\", \"property\": \"%s\", \"engine\": \"%s\", \"tier\": \"%s\", \"seed\": %" PRIu64 ", \"worker\": %d, \"nworkers\": %d,\n", c.id, c.property, c.engine, ctx.tier.c_str(), ctx.seed, ctx.worker, ctx.nworkers);
  fprintf(f, " \"desc\": \"%s\",\n \"note\": \"%s\",\n", jesc(c.desc).c_str(), jesc(note).c_str());
  fprintf(f, " \"evaluations\": %" PRIu64 ", \"executions\": %" PRIu64 ", \"nontrivial\": %" PRIu64 ", \"distinct_bulk\": %" PRIu64 ", \"distinct_nontrivial\": %zu, \"distinct_capped\": %s, \"skipped\": %" PRIu64 ", \"excluded_known\": %" PRIu64 ", \"failing_evals\": %" PRIu64 ", \"evals_after_failure\": %" PRIu64 ", \"exhaustive\": %s, \"wall_s\": %.3f,\n",
          ctx.evals + ctx.bulk_evals, ctx.executions, ctx.nontrivial + ctx.bulk_nontrivial, ctx.bulk_nontrivial, ctx.distinct.used + (size_t)ctx.bulk_nontrivial, ctx.distinct.capped ? "true" : "false", ctx.skipped, ctx.excluded_known, ctx.failing_evals, ctx.evals_after_failure, exhaustive ? "true" : "false", wall_s);
  fprintf(f, " \"configs\": ["); for (size_t i = 0; i < ctx.cuts.size(); ++i) fprintf(f, "%s\"%s\"", i ? "," : "", ctx.cuts[i].name.c_str()); fprintf(f, "],\n");
  fprintf(f, " \"classes\": {"); { bool first = true; for (auto& kv : ctx.classes_merged()) { fprintf(f, "%s\"%s\": %" PRIu64, first ? "" : ", ", jesc(kv.first).c_str(), kv.second); first = false; } } fprintf(f, "},\n");
  fprintf(f, " \"extra\": {"); { bool first = true; for (auto& kv : ctx.extra) { fprintf(f, "%s\"%s\": %" PRIu64, first ? "" : ", ", jesc(kv.first).c_str(), kv.second); first = false; } } fprintf(f, "},\n");
  fprintf(f, " \"maxima\": {"); { bool first = true; for (auto& kv : ctx.maxima) { fprintf(f, "%s\"%s\": %.6Lg", first ? "" : ", ", jesc(kv.first).c_str(), kv.second); first = false; } } fprintf(f, "},\n");
  fprintf(f, " \"known_hits\": {"); { bool first = true; for (auto& k : ctx.kfs) if (k.hits) { fprintf(f, "%s\"%d\": %" PRIu64, first ? "" : ", ", k.index, k.hits); first = false; } } fprintf(f, "},\n");
  fprintf(f, " \"samples\": [\n");
  for (size_t i = 0; i < ctx.samples.size(); ++i) {
    const Sample& s = ctx.samples[i];
    fprintf(f, "  {\"clause\": \"%s\", \"args\": %s, \"nontrivial\": %s, \"classes\": [", c.id, args_json(s.args).c_str(), s.nontrivial ? "true" : "false");
    for (size_t j = 0; j < s.classes.size(); ++j) fprintf(f, "%s\"%s\"", j ? "," : "", jesc(s.classes[j]).c_str());
    fprintf(f, "], \"calls\": [");
    for (size_t j = 0; j < s.calls.size(); ++j) fprintf(f, "%s\"%s\"", j ? "," : "", jesc(s.calls[j]).c_str());
    fprintf(f, "], \"expect\": \"%s\"}%s\n", jesc(s.expect).c_str(), i + 1 < ctx.samples.size() ? "," : "");
  }
  fprintf(f, " ],\n");
  auto wf = [&](const char* key, const Failure& fl) {
    if (!fl.set) { fprintf(f, " \"%s\": null", key); return; }
    fprintf(f, " \"%s\": {\"clause\": \"%s\", \"args\": %s, \"cfg\": \"%s\", \"what\": \"%s\"}", key, fl.clause.c_str(), args_json(fl.args).c_str(), jesc(fl.cfg).c_str(), jesc(fl.what).c_str());
  };
  wf("failure_first", ctx.fail_first); fprintf(f, ",\n"); wf("failure", ctx.fail_last); fprintf(f, "\n}\n");
  fclose(f);
}
