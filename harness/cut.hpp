// Loading of code-under-test shared objects and trap-safe calls into them.
// The harness never includes a repository header: everything it knows about the library comes
// through this C ABI (cut/cut_api.h) and the entry inventory (cut/entries.def, names only).
#pragma once
#include "../cut/cut_api.h"
#include <dlfcn.h>
#include <csetjmp>
#include <csignal>
#include <cstdio>
#include <cstdlib>
#include <cstring>
#include <string>
#include <vector>
#include <unordered_map>

// enum of entries, generated from the inventory (names only)
#define ENTRY(name, args, ret, flags, ...) E_##name,
enum EntryId : int {
#include "../cut/entries.def"
  E_COUNT
};
#undef ENTRY
struct EntrySig { const char* name; const char* args; const char* ret; const char* flags; };
#define ENTRY(name, args, ret, flags, ...) { #name, args, ret, #flags },
static const EntrySig g_sigs[] = {
#include "../cut/entries.def"
};
#undef ENTRY

struct Cut {
  std::string path, name;     // name = configuration, e.g. "g++-O2-c++17"
  void* handle = nullptr;
  const CutEntry* table = nullptr;
  int n = 0;
  bool sanitized = false;     // family S (exports cut_ub_*)
  bool abacus = false;        // sqrt() selects the abacus algorithm at run time (probed, see cut_load)
  const char* sqrt_algo = "?";
  // optional generated-program object (constant-operand call shapes, C01.const): cutk_<cfg>.so next to --kdir
  struct KEntry { const char* name; int64_t k; int shape; cut_fn fn; };
  const KEntry* ktable = nullptr; int nk = 0;
  struct PEntry { const char* postfix; int kind; int64_t (*fn)(int64_t, int64_t, int64_t, int64_t*); };
  struct SEntry { const char* name; int64_t n; int type; int shape; cut_fn fn; };
  const SEntry* stable = nullptr; int ns = 0;
  const PEntry* ptable = nullptr; int np = 0; const int64_t* kconsts = nullptr; int nkc = 0;
  int (*ub_count)() = nullptr;
  const CutUbEvent* (*ub_events)() = nullptr;
  void (*ub_reset)() = nullptr;
  // constants
  int64_t phi = 0, pidiv2 = 0, pidiv4 = 0, pi2 = 0, kmax = 0, klowest = 0, knan = 0, kone = 0, ktorad = 0, sqrt_ce = 0;
};

extern sigjmp_buf g_jb;
extern volatile sig_atomic_t g_in_call;
extern char g_trap_why[256];
void cut_install_handlers();

struct CallResult { int64_t v; int trap; };  // trap: 0 none, 1 signal, 2 assertion

static inline CallResult cut_call(const Cut& c, int id, int64_t a = 0, int64_t b = 0, int64_t cc = 0)
{
  CallResult r{0, 0};
  int j = sigsetjmp(g_jb, 0);
  if (j == 0) { g_in_call = 1; r.v = c.table[id].fn(a, b, cc); g_in_call = 0; }
  else { g_in_call = 0; r.trap = j; }
  return r;
}

static inline bool cut_load(Cut& c, const std::string& path, std::string& err)
{
  c.path = path;
  c.handle = dlopen(path.c_str(), RTLD_NOW | RTLD_LOCAL);
  if (!c.handle) { err = dlerror(); return false; }
  auto tab = (const CutEntry* (*)(int*))dlsym(c.handle, "cut_table");
  auto cfg = (const char* (*)())dlsym(c.handle, "cut_config");
  if (!tab || !cfg) { err = "missing cut_table/cut_config in " + path; return false; }
  c.table = tab(&c.n); c.name = cfg();
  if (c.n != E_COUNT) { err = "entry count mismatch in " + path; return false; }
  for (int i = 0; i < E_COUNT; ++i) if (strcmp(c.table[i].name, g_sigs[i].name)) { err = "entry order mismatch in " + path; return false; }
  c.ub_count = (int (*)())dlsym(c.handle, "cut_ub_count");
  c.ub_events = (const CutUbEvent* (*)())dlsym(c.handle, "cut_ub_events");
  c.ub_reset = (void (*)())dlsym(c.handle, "cut_ub_reset");
  c.sanitized = c.ub_count && c.ub_events && c.ub_reset;
  c.abacus = c.name.find("abacus") != std::string::npos;
  // Which square-root algorithm does sqrt() select at run time in this build? Decided by probing,
  // not by the configuration name: e.g. clang 14 with -std=c++2b folds libstdc++'s `if consteval`
  // based std::is_constant_evaluated() to true in ordinary code, so that build runs the abacus
  // algorithm at run time. C08 compares builds "provided the same algorithm is selected".
  {
    int na = 0, ns = 0, n = 0;
    for (int64_t x = 2; x < 4000; x += 7) { int64_t s = c.table[E_sqrt].fn(x, 0, 0), sa = c.table[E_sqrt_abacus].fn(x, 0, 0), ss = c.table[E_sqrt_std].fn(x, 0, 0); ++n; na += s == sa; ns += s == ss; }
    if (na == n && ns < n) c.abacus = true; else if (ns == n && na < n) c.abacus = false;
    c.sqrt_algo = (na == n && ns < n) ? "abacus" : (ns == n && na < n) ? "std" : (na == n && ns == n) ? "indistinguishable" : "mixed";
  }
  c.phi = c.table[E_k_phi].fn(0, 0, 0); c.pidiv2 = c.table[E_k_pidiv2].fn(0, 0, 0); c.pidiv4 = c.table[E_k_pidiv4].fn(0, 0, 0);
  c.pi2 = c.table[E_k_pi2].fn(0, 0, 0); c.kmax = c.table[E_k_max].fn(0, 0, 0); c.klowest = c.table[E_k_lowest].fn(0, 0, 0);
  c.knan = c.table[E_k_nan].fn(0, 0, 0); c.kone = c.table[E_k_one].fn(0, 0, 0); c.ktorad = c.table[E_k_torad].fn(0, 0, 0);
  c.sqrt_ce = c.table[E_k_sqrt_ce].fn(0, 0, 0);
  return true;
}

static inline bool cut_load_k(Cut& c, const std::string& kdir, std::string& err)
{
  std::string path = kdir + "/cutk_" + c.name + ".so";
  void* h = dlopen(path.c_str(), RTLD_NOW | RTLD_LOCAL);
  if (!h) { err = dlerror(); return false; }
  auto tab = (const Cut::KEntry* (*)(int*))dlsym(h, "cutk_table");
  if (!tab) { err = "missing cutk_table in " + path; return false; }
  c.ktable = tab(&c.nk);
  auto ptab = (const Cut::PEntry* (*)(int*))dlsym(h, "cutp_table"); auto kc = (const int64_t* (*)(int*))dlsym(h, "cutk_consts");
  if (ptab && kc) { c.ptable = ptab(&c.np); c.kconsts = kc(&c.nkc); }
  auto stab = (const Cut::SEntry* (*)(int*))dlsym(h, "cuts_table"); if (stab) c.stable = stab(&c.ns);
  return true;
}
static inline CallResult cut_call_k(const Cut& c, int idx, int64_t a)
{
  CallResult r{0, 0};
  int j = sigsetjmp(g_jb, 0);
  if (j == 0) { g_in_call = 1; r.v = c.ktable[idx].fn(a, 0, 0); g_in_call = 0; }
  else { g_in_call = 0; r.trap = j; }
  return r;
}
static inline CallResult cut_call_s(const Cut& c, int idx, int64_t a)
{
  CallResult r{0, 0};
  int j = sigsetjmp(g_jb, 0);
  if (j == 0) { g_in_call = 1; r.v = c.stable[idx].fn(a, 0, 0); g_in_call = 0; }
  else { g_in_call = 0; r.trap = j; }
  return r;
}
struct ProgResult { int64_t v; int64_t flag; int trap; };
static inline ProgResult cut_call_p(const Cut& c, int idx, int64_t a, int64_t b, int64_t cc)
{
  ProgResult r{0, 0, 0};
  int j = sigsetjmp(g_jb, 0);
  if (j == 0) { g_in_call = 1; r.v = c.ptable[idx].fn(a, b, cc, &r.flag); g_in_call = 0; }
  else { g_in_call = 0; r.trap = j; }
  return r;
}
static inline int entry_id(const std::string& name)
{
  static std::unordered_map<std::string, int> m;
  if (m.empty()) for (int i = 0; i < E_COUNT; ++i) m[g_sigs[i].name] = i;
  auto it = m.find(name);
  return it == m.end() ? -1 : it->second;
}
static inline int entry_id_or_die(const std::string& name)
{
  int id = entry_id(name);
  if (id < 0) { fprintf(stderr, "harness: unknown entry %s\n", name.c_str()); exit(2); }
  return id;
}
