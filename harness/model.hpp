// Exact value model of fixed_t over 128-bit integers. Shares no code with the library.
#pragma once
#include "dec.hpp"

static inline bool ok_exact_or_nan(i128 s, int64_t r) { return m_finite128(s) ? r == (int64_t)s : m_isnan(r); }

// model value: finite raw, NaN (some step left the range), or unspecified (a NaN operand was used)
struct MV {
  enum K { FIN, NAN_, UNSPEC } k; i128 v;
  static MV fin(i128 v) { return MV{ FIN, v }; }
  static MV nan() { return MV{ NAN_, 0 }; }
  static MV unspec() { return MV{ UNSPEC, 0 }; }
};
static inline MV m_wrap(i128 s) { return m_finite128(s) ? MV::fin(s) : MV::nan(); }
static inline MV m_add(MV a, MV b) { if (a.k != MV::FIN || b.k != MV::FIN) return MV::unspec(); return m_wrap(a.v + b.v); }
static inline MV m_sub(MV a, MV b) { if (a.k != MV::FIN || b.k != MV::FIN) return MV::unspec(); return m_wrap(a.v - b.v); }

static inline i128 floordiv128(i128 a, i128 b) { i128 q = a / b, r = a % b; if (r != 0 && ((r < 0) != (b < 0))) --q; return q; }

// fixed x fixed multiplication (C02): P = exact product of the raws (value * 2^32).
//   accept NaN, or |r*2^16 - P| <= 2^16 (within one ulp of the real product, either direction)
//   P fits int64            => must not be NaN
//   |P/2^16| beyond MAXF    => must be NaN   (exact product outside [lowest, max])
enum MulVerdict { MUL_OK, MUL_BAD_VALUE, MUL_MISSING_NAN, MUL_SPURIOUS_NAN };
static inline MulVerdict m_mul_judge(int64_t a, int64_t b, int64_t r)
{
  i128 P = (i128)a * b;
  bool fits64 = P >= -((i128)1 << 63) && P <= (((i128)1 << 63) - 1);
  // exact product outside [lowest,max]  <=>  |P| > MAXF * 2^16
  bool outside = iabs128(P) > (i128)MAXF * 65536;
  if (m_isnan(r)) return fits64 ? MUL_SPURIOUS_NAN : MUL_OK;
  if (outside) return MUL_MISSING_NAN;
  i128 diff = (i128)r * 65536 - P;
  return iabs128(diff) <= 65536 ? MUL_OK : MUL_BAD_VALUE;
}
// fixed x integer: in-range exact product, otherwise NaN
static inline bool m_mul_scalar_ok(int64_t a, i128 n, int64_t r) { return ok_exact_or_nan((i128)a * n, r); }

// fixed / fixed (C03): b == 0 => NaN; else NaN or |r*b - a*2^16| <= |b| (within 2^-16 of the real
// quotient); |a| < 2^47 (|value| < 2^31) => not NaN.
enum DivVerdict { DIV_OK, DIV_BAD_VALUE, DIV_MISSING_NAN, DIV_SPURIOUS_NAN };
static inline DivVerdict m_div_judge(int64_t a, int64_t b, int64_t r)
{
  if (b == 0) return m_isnan(r) ? DIV_OK : DIV_MISSING_NAN;
  if (m_isnan(r)) return (iabs128(a) < ((i128)1 << 47)) ? DIV_SPURIOUS_NAN : DIV_OK;
  i128 lhs = (i128)r * b - (i128)a * 65536;
  return iabs128(lhs) <= iabs128(b) ? DIV_OK : DIV_BAD_VALUE;
}
// fixed / integer: exact quotient truncated to 2^-16 for every non-zero n, NaN for zero.
// "truncated" = rounded toward zero (C++ integer division of the raw value).
static inline bool m_div_scalar_ok(int64_t a, i128 n, int64_t r)
{
  if (n == 0) return m_isnan(r);
  i128 q = (i128)a / n;   // toward zero
  return r == (int64_t)q && m_finite128(q);
}

// conversions
static inline bool m_int_in_range(i128 n) { return n >= -(i128)2147483647 && n <= (i128)2147483647; }
static inline i128 m_floor_int(int64_t raw) { return (i128)(raw >> 16); }   // floor(raw / 2^16) (arithmetic shift)
