#pragma once
#include "dec.hpp"
std::vector<Clause>& registry();
struct Reg { Reg(const Clause& c) { registry().push_back(c); } };
// helper for sweeps: does index i belong to this worker?
static inline bool mine(const Ctx& ctx, uint64_t i) { return (i % (uint64_t)ctx.nworkers) == (uint64_t)ctx.worker; }
