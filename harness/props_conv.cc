// C04 integer <-> fixed conversions, C05 floating <-> fixed conversions.
#include "registry.hpp"
#include "model.hpp"

static int typed_entry(const char* prefix, int ti) { static std::unordered_map<std::string, int> cache; std::string k = std::string(prefix) + ITYPES[ti].tok; auto it = cache.find(k); if (it != cache.end()) return it->second; int id = entry_id_or_die(k); cache[k] = id; return id; }

// ================================================================ C04
static const char* kFromForms[5] = { "from_", "mk_", "i2f_", "add_r_", "sub_l_" };   // fixed_t{n}, make_fixed(n), integral_to_fixed(n), 0_fix + n, n - 0_fix
static void c04_from_check(Ctx& ctx, const Args& a)
{
  if (a.size() != 3 || a[0] < 0 || a[0] > 4 || a[1] < 0 || a[1] >= NITYPES) { ctx.skip(); return; }
  const IType& t = ITYPES[a[1]]; i128 n = tval(t, a[2]); bool inr = m_int_in_range(n);
  int id = typed_entry(kFromForms[a[0]], (int)a[1]); int toid = typed_entry("to_", (int)a[1]);
  ctx.cls(t.tok); ctx.cls(kFromForms[a[0]]);
  if (!inr) { ctx.cls("out-of-range->NaN"); ctx.nontriv(); } else if (iabs128(n) >= (i128)2147483647 - 65536) { ctx.cls("in-range-near-2^31"); ctx.nontriv(); }
  if (ctx.verbose()) ctx.expect(inr ? "raw " + i128s(n * 65536) : std::string("NaN"));
  for (size_t ci = 0; ci < ctx.cuts.size(); ++ci) {
    int64_t r; bool ok = a[0] <= 2 ? ctx.call(ci, id, a[2], r) : ctx.call(ci, id, 0, a[2], r);
    if (!ok) continue;
    if (inr ? r != (int64_t)(n * 65536) : !m_isnan(r)) { ctx.fail(ci, strf("%s(%s) = %" PRId64 ", expected %s", g_sigs[id].name, i128s(n).c_str(), r, inr ? i128s(n * 65536).c_str() : "NaN")); continue; }
    if (inr) { int64_t back; if (ctx.call(ci, toid, r, back) && tval(t, back) != n) ctx.fail(ci, strf("round trip %s -> fixed_t -> %s gives %s", i128s(n).c_str(), t.tok, i128s(tval(t, back)).c_str())); }
  }
}
static Args c04_from_decode(Ctx&, Dec& d) { int form = (int)d.range(0, 4); int ti = (int)d.range(0, NITYPES - 1); int64_t n = dec_int(d, ITYPES[ti]); return { form, ti, n }; }
static Reg r_c04_from({ "C04.fromint", "C04", "rc",
  "every integral type x {fixed_t{n}, make_fixed, integral_to_fixed, 0_fix + n, n - 0_fix}: n from the type's classes (small, bit-length uniform, type limits, +-(2^31-1)+-3, 2^31, 2^32, 2^63, 2^64-1 +-3, uniform); oracle: |n| <= 2^31-1 -> raw n*2^16 and n -> fixed_t -> T returns n; otherwise NaN; non-trivial = out of range or within 2^16 of the limit",
  c04_from_check, 10, c04_from_decode, nullptr });

static const char* kToForms[3] = { "to_", "f2i_", "f2a_" };
static void c04_to_check(Ctx& ctx, const Args& a)
{
  if (a.size() != 3 || a[0] < 0 || a[0] > 2 || a[1] < 0 || a[1] >= NITYPES || !m_finite128(a[2])) { ctx.skip(); return; }
  const IType& t = ITYPES[a[1]]; int64_t x = a[2]; i128 k = m_floor_int(x); bool rep = k >= tmin(t) && k <= tmax(t);
  i128 e = rep ? k : 0; int id = typed_entry(kToForms[a[0]], (int)a[1]);
  ctx.cls(t.tok);
  if (!rep) { ctx.cls("k-not-representable->0"); ctx.nontriv(); } else if (x < 0 && (x & 0xffff)) { ctx.cls("negative-fraction"); ctx.nontriv(); } else ctx.cls("representable");
  if (rep && (k == tmin(t) || k == tmax(t))) { ctx.cls("k-at-type-limit"); ctx.nontriv(); }
  for (size_t ci = 0; ci < ctx.cuts.size(); ++ci) {
    int64_t r; if (!ctx.call(ci, id, x, r)) continue;
    if (tval(t, r) != e || (t.bits < 64 && r != (int64_t)e)) ctx.fail(ci, strf("%s(%" PRId64 ") = %" PRId64 ", expected %s (floor %s %s in %s)", g_sigs[id].name, x, r, i128s(e).c_str(), i128s(k).c_str(), rep ? "representable" : "not representable", t.tok));
  }
}
static Args c04_to_decode(Ctx&, Dec& d)
{
  int form = (int)d.range(0, 2); int ti = (int)d.range(0, NITYPES - 1); int64_t x = dec_raw(d); int mode = (int)d.range(0, 3); int64_t n = dec_int(d, ITYPES[ti]); uint64_t u = d.u64();
  if (mode >= 2) { i128 k = tval(ITYPES[ti], n); if (mode == 3) k = (u & 1) ? tmax(ITYPES[ti]) + (int64_t)((u >> 1) % 3) - 1 : tmin(ITYPES[ti]) + (int64_t)((u >> 1) % 3) - 1; i128 raw = k * 65536 + (int64_t)((u >> 8) % 65536); if (m_finite128(raw)) x = (int64_t)raw; }
  return { form, ti, x };
}
static Reg r_c04_to({ "C04.toint", "C04", "rc",
  "finite raw x x every integral target type x {static_cast<T>, fixed_to_integral<T>, fixed_to_arithmetic<T>}: x from the raw classes, or built as k*2^16+frac with k from T's classes / at T's limits +-1; oracle: k = floor(x); result k when representable in T, else 0; non-trivial = k not representable, k at a type limit, or a negative value with a fraction",
  c04_to_check, 16, c04_to_decode, nullptr });

// exhaustive / strided sweep over the integer source types
static SweepInfo c04_sweep(Ctx& ctx, const Clause& cl)
{
  SweepInfo si; bool thorough = ctx.tier == "thorough";
  uint64_t stride32 = thorough ? 1 : 61; uint64_t phase = thorough ? 0 : ctx.seed % stride32;
  si.exhaustive = thorough; si.note = thorough ? "all values of int8/uint8/int16/uint16/int32/uint32 through fixed_t{n} and back" : strf("all values of the 8- and 16-bit types; int32/uint32 every %llu-th value (phase %llu) plus the 2^17 values around each range limit", (unsigned long long)stride32, (unsigned long long)phase);
  uint64_t idx = 0;
  for (int ti = 0; ti < 6; ++ti) {
    const IType& t = ITYPES[ti]; int from = typed_entry("from_", ti), to = typed_entry("to_", ti);
    i128 lo = tmin(t), hi = tmax(t); uint64_t st = t.bits == 32 ? stride32 : 1;
    auto one = [&](i128 n) {
      ++idx; if (!mine(ctx, idx)) return;
      int64_t pat = (int64_t)n; bool inr = m_int_in_range(n); bool bad = false;
      for (size_t ci = 0; ci < ctx.cuts.size() && !bad; ++ci) {
        CallResult r = cut_call(ctx.cuts[ci], from, pat); ++ctx.executions;
        if (r.trap || (inr ? r.v != (int64_t)(n * 65536) : !m_isnan(r.v))) { bad = true; break; }
        if (inr) { CallResult b = cut_call(ctx.cuts[ci], to, r.v); ++ctx.executions; if (b.trap || tval(t, b.v) != n) bad = true; }
      }
      bool nt = !inr || iabs128(n) >= (i128)2147483647 - 65536 || t.bits < 32;
      if (bad || (idx % 4000037) < (uint64_t)ctx.nworkers) ctx.evaluate(cl, { 0, ti, pat }); else { ++ctx.bulk_evals; if (nt) ++ctx.bulk_nontrivial; }
    };
    for (i128 n = lo + (t.bits == 32 ? (i128)phase : 0); n <= hi; n += st) one(n);
    if (t.bits == 32 && !thorough) { for (i128 c : { lo, hi, (i128)2147483647, -(i128)2147483647 }) for (i128 n = c - 65536; n <= c + 65536; ++n) if (n >= lo && n <= hi) one(n); }
  }
  return si;
}
static Reg r_c04_sweep({ "C04.sweep", "C04", "sweep",
  "enumeration of the integer source types through fixed_t{n} and static_cast<T>: every value of int8, uint8, int16, uint16 on every run; int32 and uint32 strided in the quick tier and complete in the thorough tier; same oracle as C04.fromint; non-trivial = out of range, within 2^16 of the limit, or any value of an 8/16-bit type (distinct by construction)",
  c04_from_check, 0, nullptr, c04_sweep });

// ================================================================ C05
// half the spacing of the floating type with `mant` explicit mantissa bits at magnitude y > 0
static long double hulp(long double y, int mant) { int e; frexpl(y, &e); return ldexpl(1.0L, e - 1 - mant - 1); }
template<class FT> static const char* judge_fp2fix(FT v, int64_t r, int mant, std::string* why)
{
  bool inrange = std::fabs((long double)v) < 2147483647.0L;   // false for inf and NaN
  if (!inrange) return m_isnan(r) ? nullptr : "out of range / non-finite source must convert to NaN";
  if (m_isnan(r)) return "in-range source converted to NaN";
  long double t = (long double)v * 65536.0L;                  // exact
  long double s = t + (v < 0 ? -0.5L : 0.5L);
  if ((long double)(FT)s == s) {                              // the scaling step is exact in FT: ties away from zero, exactly
    int64_t e = (int64_t)truncl(s);
    if (r != e) { if (why) *why = strf("expected exactly %" PRId64 " (round half away from zero, no floating rounding involved)", e); return "not the nearest value"; }
    return nullptr;
  }
  long double tol = 0.5L + hulp(fabsl(t) + 0.5L, mant) + 0x1p-40L;
  if (fabsl((long double)r - t) > tol) { if (why) *why = strf("|r - v*2^16| = %.6Lg > %.6Lg", fabsl((long double)r - t), tol); return "more than half an ulp (plus one rounding of the scaling step) away"; }
  return nullptr;
}
static const int kF32Forms[3] = { E_from_f32, E_mk_f32, E_fp2f_f32 };
static const int kF64Forms[3] = { E_from_f64, E_mk_f64, E_fp2f_f64 };
static bool f32_nontrivial(float v, const char** cls)
{
  long double av = fabsl((long double)v);
  if (!(av < 2147483647.0L)) { *cls = "non-finite-or-out-of-range"; return true; }
  long double t = av * 65536.0L, fr = t - floorl(t);
  if (fr == 0.5L) { *cls = "exact-tie"; return true; }
  if (fr != 0) { *cls = "inexact"; return true; }
  if (av >= 1073741824.0L) { *cls = "|v|>=2^30"; return true; }
  *cls = "exact"; return false;
}
static void c05_f32_check(Ctx& ctx, const Args& a)
{
  if (a.size() != 2 || a[0] < 0 || a[0] > 2 || a[1] < 0 || a[1] > 0xffffffffll) { ctx.skip(); return; }
  float v = bits_f32((uint32_t)a[1]); const char* c; if (f32_nontrivial(v, &c)) ctx.nontriv(); ctx.cls(c);
  for (size_t ci = 0; ci < ctx.cuts.size(); ++ci) {
    int64_t r; if (!ctx.call(ci, kF32Forms[a[0]], a[1], r)) continue;
    std::string why; const char* bad = judge_fp2fix<float>(v, r, 23, &why);
    if (bad) ctx.fail(ci, strf("%s(%.9g [0x%08x]) = %" PRId64 ": %s %s", g_sigs[kF32Forms[a[0]]].name, (double)v, (unsigned)a[1], r, bad, why.c_str()));
  }
}
static Args c05_f32_decode(Ctx&, Dec& d) { int form = (int)d.range(0, 2); return { form, (int64_t)dec_f32(d) }; }
static Reg r_c05_f32({ "C05.f32", "C05", "rc",
  "float bit patterns x {fixed_t{v}, make_fixed, floating_point_to_fixed}: exponent-uniform in [2^-20,2^33], any exponent, special values (zeros, subnormals, inf, NaNs, 2^31 and neighbours), mantissa edge patterns, exact ties (2k+1)/2^17; oracle: |v| < 2^31-1 finite -> not NaN and |r - v*2^16| <= 0.5 + half a float ulp at that magnitude, and exactly round-half-away when v*2^16+-0.5 is representable in float; otherwise NaN; non-trivial = non-finite/out of range, inexact, exact tie, or |v| >= 2^30",
  c05_f32_check, 6, c05_f32_decode, nullptr });

static void c05_f64_check(Ctx& ctx, const Args& a)
{
  if (a.size() != 2 || a[0] < 0 || a[0] > 2) { ctx.skip(); return; }
  double v = bits_f64((uint64_t)a[1]); long double av = fabsl((long double)v);
  if (!(av < 2147483647.0L)) { ctx.cls("non-finite-or-out-of-range"); ctx.nontriv(); }
  else { long double t = av * 65536.0L, fr = t - floorl(t); if (fr == 0.5L) { ctx.cls("exact-tie"); ctx.nontriv(); } else if (fr != 0) { ctx.cls("inexact"); ctx.nontriv(); if (fabsl(fr - 0.5L) < 0x1p-20L) ctx.cls("within-2^-20-of-a-tie"); } else { ctx.cls("exact"); if (av >= 1073741824.0L) ctx.nontriv(); } }
  for (size_t ci = 0; ci < ctx.cuts.size(); ++ci) {
    int64_t r; if (!ctx.call(ci, kF64Forms[a[0]], a[1], r)) continue;
    std::string why; const char* bad = judge_fp2fix<double>(v, r, 52, &why);
    if (bad) ctx.fail(ci, strf("%s(%.17g [0x%016" PRIx64 "]) = %" PRId64 ": %s %s", g_sigs[kF64Forms[a[0]]].name, v, (uint64_t)a[1], r, bad, why.c_str()));
  }
}
static Args c05_f64_decode(Ctx&, Dec& d) { int form = (int)d.range(0, 2); return { form, (int64_t)dec_f64(d) }; }
static Reg r_c05_f64({ "C05.f64", "C05", "rc",
  "double bit patterns x {fixed_t{v}, make_fixed, floating_point_to_fixed}: exponent-uniform in [2^-20,2^33], any exponent, special values (zeros, subnormals, inf, NaNs, 2^31-1 and its neighbours), mantissa edge patterns, exact ties and their double neighbours; oracle as C05.f32 with double spacing; non-trivial = non-finite/out of range, inexact, exact tie, or |v| >= 2^30",
  c05_f64_check, 6, c05_f64_decode, nullptr });

// integer-only round-to-nearest-even of raw/2^16 to float
static uint32_t rne_f32_bits(int64_t raw)
{
  if (raw == 0) return 0;
  uint32_t sign = raw < 0 ? 0x80000000u : 0; uint64_t m = raw < 0 ? (uint64_t)(-raw) : (uint64_t)raw;
  int len = bitlen64(m); int e = len - 1 - 16;     // value in [2^e, 2^(e+1))
  uint64_t mant;
  if (len <= 24) mant = m << (24 - len);
  else { int sh = len - 24; uint64_t q = m >> sh, rem = m & (((uint64_t)1 << sh) - 1), half = (uint64_t)1 << (sh - 1); if (rem > half || (rem == half && (q & 1))) ++q; if (q == ((uint64_t)1 << 24)) { q >>= 1; ++e; } mant = q; }
  return sign | ((uint32_t)(e + 127) << 23) | ((uint32_t)mant & 0x7fffff);
}
static const int kToF32[3] = { E_to_f32, E_f2fp_f32, E_f2a_f32 };
static const int kToF64[3] = { E_to_f64, E_f2fp_f64, E_f2a_f64 };
static void c05_tofp_check(Ctx& ctx, const Args& a)
{
  if (a.size() != 1 || !m_finite128(a[0])) { ctx.skip(); return; }
  int64_t x = a[0]; i128 ax = iabs128(x);
  bool le53 = ax <= ((i128)1 << 53), lt47 = ax < ((i128)1 << 47), band = lt47 && ax >= (i128)2147483647 * 65536;
  if (bitlen64((uint64_t)ax) > 24 && (ax & ((((i128)1) << (bitlen64((uint64_t)ax) - 24)) - 1))) { ctx.cls("float-rounding-needed"); ctx.nontriv(); }
  if (band) { ctx.cls("round-trip-band[2^31-1,2^31)"); ctx.nontriv(); } else if (lt47) ctx.cls("|raw|<2^47"); else if (le53) ctx.cls("2^47<=|raw|<=2^53"); else ctx.cls("|raw|>2^53(double-unchecked)");
  if (lt47 && ax >= ((i128)1 << 40)) ctx.nontriv();
  uint32_t ef = rne_f32_bits(x);
  for (size_t ci = 0; ci < ctx.cuts.size(); ++ci) {
    for (int k = 0; k < 3; ++k) {
      int64_t r;
      if (ctx.call(ci, kToF32[k], x, r) && (uint32_t)r != ef) ctx.fail(ci, strf("%s(%" PRId64 ") = 0x%08x (%.9g), correctly rounded value is 0x%08x (%.9g)", g_sigs[kToF32[k]].name, x, (unsigned)r, (double)bits_f32((uint32_t)r), ef, (double)bits_f32(ef)));
      if (le53 && ctx.call(ci, kToF64[k], x, r)) { long double back = (long double)bits_f64((uint64_t)r) * 65536.0L; if (back != (long double)x) ctx.fail(ci, strf("%s(%" PRId64 ") = %.17g is not exact", g_sigs[kToF64[k]].name, x, bits_f64((uint64_t)r))); }
    }
    if (lt47) { int64_t r; if (ctx.call(ci, E_rt_f64, x, r) && r != x && !(band && m_isnan(r))) ctx.fail(ci, strf("fixed -> double -> fixed of %" PRId64 " gives %" PRId64, x, r)); }
  }
}
static Args c05_tofp_decode(Ctx&, Dec& d)
{
  int mode = (int)d.range(0, 3); int64_t x = dec_raw(d); int64_t y = dec_raw(d, 47); uint64_t u = d.u64(); bool neg = d.flag();
  if (mode == 1) x = y;
  else if (mode == 2) { int len = 25 + (int)(u % 39); uint64_t top = ((uint64_t)1 << 23 | (u >> 40) % (1 << 23)) ; int sh = len - 24; uint64_t tail = (u >> 8) % 4 == 0 ? ((uint64_t)1 << (sh - 1)) : (u >> 8) % 4 == 1 ? ((uint64_t)1 << (sh - 1)) + 1 : (u >> 8) % 4 == 2 ? ((uint64_t)1 << (sh - 1)) - 1 : (d.u64() & (((uint64_t)1 << sh) - 1)); uint64_t m = (top << sh) | tail; if (m > (uint64_t)MAXF) m = MAXF; x = neg ? -(int64_t)m : (int64_t)m; }   // float ties and near-ties
  else if (mode == 3) { int64_t b = (int64_t)2147483647 * 65536 + (int64_t)(u % 65536); x = neg ? -b : b; if (u >> 60 == 0) x = neg ? -(b - 70000) : b - 70000; }
  return { x };
}
static Reg r_c05_tofp({ "C05.tofp", "C05", "rc",
  "finite raw x: raw classes, |raw| < 2^47, values whose 25th..63rd significant bit pattern is a float tie / tie+-1, and the band [2^31-1, 2^31); oracle: fixed->float equals an integer-only round-to-nearest-even of raw/2^16 (all three conversion spellings); fixed->double is exact for |raw| <= 2^53; fixed->double->fixed is the identity for |raw| < 2^47, where in the band 2^31-1 <= |x| < 2^31 NaN is also accepted (the property's first sentence requires NaN there, its third the identity; see DESIGN.md); non-trivial = float rounding needed, band, or |raw| in [2^40,2^47)",
  c05_tofp_check, 16, c05_tofp_decode, nullptr });

// sweep over float bit patterns: complete in the thorough tier
static SweepInfo c05_f32_sweep(Ctx& ctx, const Clause& cl)
{
  SweepInfo si; bool thorough = ctx.tier == "thorough";
  uint64_t stride = thorough ? 1 : 31, phase = thorough ? 0 : ctx.seed % stride;
  si.exhaustive = thorough; si.note = thorough ? "all 2^32 float bit patterns through fixed_t{v}" : strf("every %llu-th float bit pattern (phase %llu) through fixed_t{v}", (unsigned long long)stride, (unsigned long long)phase);
  uint64_t total = ((uint64_t)1 << 32); uint64_t per = (total + ctx.nworkers - 1) / ctx.nworkers; uint64_t lo = per * ctx.worker, hi = std::min(total, lo + per);
  uint64_t start = lo + ((phase + stride - lo % stride) % stride);
  for (uint64_t b = start; b < hi; b += stride) {
    float v = bits_f32((uint32_t)b); bool bad = false;
    for (size_t ci = 0; ci < ctx.cuts.size(); ++ci) { CallResult r = cut_call(ctx.cuts[ci], E_from_f32, (int64_t)b); ++ctx.executions; if (r.trap || judge_fp2fix<float>(v, r.v, 23, nullptr)) { bad = true; break; } }
    if (bad || (b % 50000017ull) < stride) ctx.evaluate(cl, { 0, (int64_t)b });
    else { ++ctx.bulk_evals; const char* c; if (f32_nontrivial(v, &c)) ++ctx.bulk_nontrivial; }
  }
  return si;
}
static Reg r_c05_f32_sweep({ "C05.f32sweep", "C05", "sweep",
  "enumeration of float bit patterns through fixed_t{v} (strided in the quick tier, all 2^32 in the thorough tier); oracle and non-trivial rule as C05.f32 (distinct by construction)",
  c05_f32_check, 0, nullptr, c05_f32_sweep });

// stratified lattices: doubles per (sign, exponent) in the conversion window and beyond; raw values per bit length
static SweepInfo c05_f64_lattice(Ctx& ctx, const Clause& cl)
{
  SweepInfo si; bool thorough = ctx.tier == "thorough"; uint64_t per = thorough ? (1u << 21) : (1u << 15);
  si.note = strf("for each sign and each binary exponent in [-24, 34] a lattice of %llu mantissas (odd stride, offset from VERIF_SEED) plus the 64 smallest and largest mantissas of the binade; every 4th exponent of the remaining double range with 256 mantissas", (unsigned long long)per);
  uint64_t idx = 0; const uint64_t MM = (uint64_t)1 << 52;
  auto run = [&](int e, uint64_t count) {
    uint64_t step = (MM / count) | 1, off = mix64(ctx.seed * 977 + (uint64_t)(e + 2000)) % MM;
    for (int sgn = 0; sgn < 2; ++sgn) {
      for (uint64_t j = 0; j < count; ++j) { if (!mine(ctx, ++idx)) continue; uint64_t man = (off + j * step) % MM; uint64_t b = ((uint64_t)sgn << 63) | ((uint64_t)(e + 1023) << 52) | man; ctx.evaluate(cl, { 0, (int64_t)b }); }
      for (uint64_t j = 0; j < 64; ++j) for (int hi = 0; hi < 2; ++hi) { if (!mine(ctx, ++idx)) continue; uint64_t man = hi ? MM - 1 - j : j; uint64_t b = ((uint64_t)sgn << 63) | ((uint64_t)(e + 1023) << 52) | man; ctx.evaluate(cl, { 0, (int64_t)b }); }
    }
  };
  for (int e = -24; e <= 34; ++e) run(e, per);
  for (int e = -1022; e <= 1023; e += 4) if (e < -24 || e > 34) run(e, 256);
  return si;
}
static Reg r_c05_f64_lattice({ "C05.f64lattice", "C05", "sweep",
  "double bit patterns: for each sign and binary exponent in [-24, 34] (everything that converts to a non-zero in-range value, and the first out-of-range binades) a seed-offset lattice of mantissas plus the binade's 64 lowest and highest mantissas; the rest of the exponent range sparsely; through fixed_t{v}; oracle and non-trivial rule as C05.f64 (distinct by construction)",
  c05_f64_check, 0, nullptr, c05_f64_lattice });
static SweepInfo c05_tofp_lattice(Ctx& ctx, const Clause& cl)
{
  SweepInfo si; bool thorough = ctx.tier == "thorough"; uint64_t per = thorough ? 2000000 : 40000; int exbits = thorough ? 22 : 18;
  si.note = strf("exhaustive on |raw| < 2^%d; lattice of %llu values per bit length %d..63 with both signs; the band [2^31-1, 2^31) +-70000 raw", exbits, (unsigned long long)per, exbits + 1);
  uint64_t idx = 0;
  for (int64_t x = -((int64_t)1 << exbits) + 1; x < ((int64_t)1 << exbits); ++x) if (mine(ctx, ++idx)) ctx.evaluate(cl, { x });
  for (int len = exbits + 1; len <= 63; ++len) { uint64_t base = (uint64_t)1 << (len - 1), span = base, cnt = std::min<uint64_t>(per, span), step = (span / cnt) | 1, off = mix64(ctx.seed * 53 + len) % span;
    for (uint64_t j = 0; j < cnt; ++j) if (mine(ctx, ++idx)) { uint64_t v = base + (off + j * step) % span; if (v > (uint64_t)MAXF) v = MAXF; ctx.evaluate(cl, { (j & 1) ? (int64_t)v : -(int64_t)v }); } }
  int64_t bandlo = (int64_t)2147483647 * 65536; for (int64_t dl = -70000; dl <= 70000; dl += thorough ? 1 : 7) for (int sg = 0; sg < 2; ++sg) if (mine(ctx, ++idx)) { int64_t v = bandlo + dl; ctx.evaluate(cl, { sg ? -v : v }); }
  return si;
}
static Reg r_c05_tofp_lattice({ "C05.tofplattice", "C05", "sweep",
  "raw values: exhaustive on |raw| < 2^18 quick / 2^22 thorough, a seed-offset lattice per bit length up to 63 with both signs, and the round-trip band; through fixed->float (three spellings), fixed->double and the double round trip; oracle and non-trivial rule as C05.tofp (distinct by construction)",
  c05_tofp_check, 0, nullptr, c05_tofp_lattice });
