// fmcheck: the harness executable. One process = one worker of one clause.
//   fmcheck list
//   fmcheck run <clause> --tier T --seed S --worker w --nworkers W --n N --out file [--kf file] <cut.so>...
//   fmcheck replay <clause> --args a,b,c [--kf file] <cut.so>...
//   fmcheck merge <hashfile>...
#include "registry.hpp"
#include "meta.hpp"
#include "fuzzsel.hpp"
#include <rapidcheck.h>
#include <chrono>
#include <fstream>
#include <sstream>


static void load_kf(Ctx& ctx, const std::string& path)
{
  std::ifstream in(path); std::string line; int idx = 0;
  while (std::getline(in, line)) {
    if (line.empty() || line[0] == '#') continue;
    std::istringstream ss(line); KnownFinding k; ss >> k.index >> k.property >> k.clause >> k.cfg >> k.kind;
    if (k.kind == "box") { int n; ss >> n; for (int i = 0; i < n; ++i) { KfRange r; std::string ar; long long lo, hi; ss >> r.idx >> ar >> lo >> hi; r.abs = ar == "A"; r.lo = lo; r.hi = hi; k.box.push_back(r); } }
    else if (k.kind == "site") { ss >> k.site_kind >> k.site_file >> k.site_line; }
    else { fprintf(stderr, "harness: bad known-finding line: %s\n", line.c_str()); exit(2); }
    ctx.kfs.push_back(k); ++idx;
  }
}

// delete whole steps of a failing history while it still fails, then shrink the remaining integers
static Args minimize_case(Ctx& ctx, const Clause& cl, Args a)
{
  if (!strcmp(cl.id, "C17.hist")) {
    bool progress = true;
    while (progress && a.size() > 3) { progress = false;
      for (size_t i = 1; i + 1 < a.size(); i += 2) { Args t = a; t.erase(t.begin() + (long)i, t.begin() + (long)i + 2); Failure k1 = ctx.fail_first, k2 = ctx.fail_last; if (!ctx.evaluate(cl, t)) { a = t; progress = true; break; } ctx.fail_first = k1; ctx.fail_last = k2; } }
  }
  return shrink_ints(ctx, cl, a);
}
static void run_rc(Ctx& ctx, const Clause& cl)
{
  uint64_t seed = mix64(ctx.seed * 1000003ull + std::hash<std::string>()(cl.id) + (uint64_t)ctx.worker * 7919ull);
  std::string params = strf("seed=%llu max_success=%llu max_size=100 max_discard_ratio=1000", (unsigned long long)seed, (unsigned long long)ctx.ncases);
  setenv("RC_PARAMS", params.c_str(), 1);
  auto g = rc::gen::resize(100, rc::gen::container<std::vector<uint64_t>>((std::size_t)cl.nwords, rc::gen::arbitrary<uint64_t>()));
  rc::check(cl.id, [&]() {
    std::vector<uint64_t> w = *g;
    Dec d(w.data(), w.size());
    Args a = cl.decode(ctx, d);
    if (!ctx.evaluate(cl, a)) RC_FAIL(ctx.fail_last.what);
  });
}

void grid_register(); void grid_register2();
int main(int argc, char** argv)
{
  grid_register(); grid_register2();
  setvbuf(stdout, nullptr, _IOLBF, 0);
  if (argc < 2) { fprintf(stderr, "usage: fmcheck list|run|replay|merge ...\n"); return 2; }
  std::string cmd = argv[1];
  if (cmd == "list") {
    for (const Clause& c : registry()) printf("{\"clause\": \"%s\", \"property\": \"%s\", \"engine\": \"%s\", \"desc\": \"%s\"}\n", c.id, c.property, c.engine, jesc(c.desc).c_str());
    return 0;
  }
  if (cmd == "merge") {
    std::vector<uint64_t> all;
    for (int i = 2; i < argc; ++i) { FILE* f = fopen(argv[i], "rb"); if (!f) continue; uint64_t buf[4096]; size_t n; while ((n = fread(buf, 8, 4096, f)) > 0) all.insert(all.end(), buf, buf + n); fclose(f); }
    std::sort(all.begin(), all.end()); size_t d = std::unique(all.begin(), all.end()) - all.begin();
    printf("%zu\n", d); return 0;
  }
  if (cmd == "decode-fuzz") {   // fmcheck decode-fuzz <clause,clause,...> <artifact> [<cut.so>]
    if (argc < 4) return 2;
    g_fuzz_mode = true;    // decode exactly as the fuzz target does
    Ctx ctx; if (argc > 4) { Cut c; std::string err; if (cut_load(c, argv[4], err)) { ctx.cuts.push_back(c); g_dc.phi = c.phi; g_dc.pidiv2 = c.pidiv2; g_dc.pidiv4 = c.pidiv4; } }
    FILE* f = fopen(argv[3], "rb"); if (!f) return 2; std::vector<uint8_t> buf(1 << 16); size_t n = fread(buf.data(), 1, buf.size(), f); fclose(f);
    const Clause* cl; Args a; if (!fuzz_select(ctx, fuzz_clauses(argv[2]), buf.data(), n, cl, a)) { printf("{}\n"); return 0; }
    printf("{\"clause\": \"%s\", \"args\": %s}\n", cl->id, args_json(a).c_str()); return 0;
  }
  if (argc < 3) return 2;
  std::string clause = argv[2];
  const Clause* cl = nullptr; for (const Clause& c : registry()) if (clause == c.id) cl = &c;
  if (!cl) { fprintf(stderr, "harness: unknown clause %s\n", clause.c_str()); return 2; }
  Ctx ctx; std::string out, kf, argstr, pre, kdir, genname; std::vector<std::string> sos;
  for (int i = 3; i < argc; ++i) {
    std::string a = argv[i];
    auto val = [&]() -> std::string { if (i + 1 >= argc) { fprintf(stderr, "missing value for %s\n", a.c_str()); exit(2); } return argv[++i]; };
    if (a == "--tier") ctx.tier = val(); else if (a == "--seed") ctx.seed = strtoull(val().c_str(), 0, 10);
    else if (a == "--worker") ctx.worker = atoi(val().c_str()); else if (a == "--nworkers") ctx.nworkers = atoi(val().c_str());
    else if (a == "--n") ctx.ncases = strtoull(val().c_str(), 0, 10); else if (a == "--out") out = val();
    else if (a == "--kf") kf = val(); else if (a == "--args") argstr = val(); else if (a == "--pre") pre = val(); else if (a == "--kdir") kdir = val(); else if (a == "--gen") genname = val(); else sos.push_back(a);
  }
  cut_install_handlers();
  for (const std::string& p : sos) { Cut c; std::string err; if (!cut_load(c, p, err)) { fprintf(stderr, "harness: %s\n", err.c_str()); return 2; } ctx.cuts.push_back(c); }
  if (ctx.cuts.empty()) { fprintf(stderr, "harness: no code-under-test objects given\n"); return 2; }
  if (!kdir.empty()) for (Cut& c : ctx.cuts) { std::string err; if (!cut_load_k(c, kdir, err)) { fprintf(stderr, "harness: %s\n", err.c_str()); return 2; } }
  g_dc.phi = ctx.cuts[0].phi; g_dc.pidiv2 = ctx.cuts[0].pidiv2; g_dc.pidiv4 = ctx.cuts[0].pidiv4;
  if (!kf.empty()) load_kf(ctx, kf);

  if (cmd == "minimize") {   // fmcheck minimize <clause> --args a,b,c <cut.so>... : prints the minimised failing arguments (or the input if it passes)
    Args a; { std::istringstream ss(argstr); std::string t; while (std::getline(ss, t, ',')) if (!t.empty()) a.push_back((int64_t)strtoll(t.c_str(), 0, 10)); }
    if (ctx.evaluate(*cl, a)) { printf("%s\n", args_json(a).c_str()); return 0; }
    Args s = minimize_case(ctx, *cl, a); if (ctx.evaluate(*cl, s)) s = a;
    printf("%s\n", args_json(s).c_str()); return 0;
  }
  if (cmd == "replay") {
    ctx.replay_mode = true; Args a; { std::istringstream ss(argstr); std::string t; while (std::getline(ss, t, ',')) if (!t.empty()) a.push_back((int64_t)strtoll(t.c_str(), 0, 10)); }
    bool ok = ctx.evaluate(*cl, a);
    for (const std::string& s : ctx.case_calls) printf("  %s\n", s.c_str());
    if (!ctx.case_expect.empty()) printf("  expect: %s\n", ctx.case_expect.c_str());
    if (ctx.case_skip) { printf("REPLAY %s args=%s: outside the clause's domain (skipped)\n", cl->id, args_json(a).c_str()); return 0; }
    if (ok && ctx.excluded_known) { printf("REPLAY %s args=%s: matches a listed known finding\n", cl->id, args_json(a).c_str()); return 3; }
    if (ok) { printf("REPLAY %s args=%s: PASS\n", cl->id, args_json(a).c_str()); return 0; }
    printf("REPLAY %s args=%s: FAIL on %s: %s\n", cl->id, args_json(a).c_str(), ctx.fail_last.cfg.c_str(), ctx.fail_last.what.c_str());
    return 1;
  }
  if (cmd == "emit") {
    // engine E4, step 1: generate in-domain cases for the constant-evaluation TUs and record the
    // run-time value on which all loaded configurations (of the same sqrt group) agree
    uint64_t seed = mix64(ctx.seed * 1000003ull + 0xce);
    std::string params = strf("seed=%llu max_success=%llu max_size=100", (unsigned long long)seed, (unsigned long long)ctx.ncases);
    setenv("RC_PARAMS", params.c_str(), 1);
    FILE* fo = fopen(out.c_str(), "w"); if (!fo) { perror(out.c_str()); return 2; }
    uint64_t emitted = 0, disagree = 0, trapped = 0, notce = 0, nonfinite = 0;
    auto g = rc::gen::resize(100, rc::gen::container<std::vector<uint64_t>>((std::size_t)cl->nwords, rc::gen::arbitrary<uint64_t>()));
    rc::check("emit", [&]() {
      std::vector<uint64_t> w = *g; Dec d(w.data(), w.size()); Args a; int id;
      if (genname == "clause") {   // the property clause's own targeted generator, mapped onto an inventory entry
        Args ca = cl->decode(ctx, d); int64_t x, y, z; if (!ce_map(cl->id, ca, id, x, y, z)) return; a = { entry_key(id), x, y, z };
      } else { a = genname == "c07" ? cl->decode(ctx, d) : c08_decode(ctx, d); id = entry_from_key(a[0]); }
      const char* fl = g_sigs[id].flags; if (!strcmp(fl, "RT")) { ++notce; return; }
      const auto& sig = entry_args()[id]; if (genname != "c07") for (size_t i = 0; i < sig.size(); ++i) if (!c08_arg_ok(id, i, sig[i], a[1 + i])) return;
      bool sq = !strcmp(fl, "CESQ"); bool have = false, bad = false; int64_t ref = 0;
      for (const Cut& c : ctx.cuts) { CallResult r = cut_call(c, id, a[1], a[2], a[3]); if (r.trap) { ++trapped; bad = true; break; } if (sq && !c.abacus) continue; if (!have) { have = true; ref = r.v; } else if (r.v != ref) { if (disagree < 12) fprintf(stderr, "emit: builds disagree on %s(%" PRId64 ",%" PRId64 ",%" PRId64 "): %" PRId64 " vs %" PRId64 " (%s)\n", g_sigs[id].name, a[1], a[2], a[3], ref, r.v, c.name.c_str()); ++disagree; bad = true; break; } }
      if (bad || !have) return;
      // Language rule, not a library matter: a floating-point operation whose result is not finite
      // (x/0.0, overflow to inf, inf-inf) is never a constant expression, and NaN payloads are not
      // pinned. Double-typed entries are therefore emitted only with finite operands and results.
      if (!strcmp(g_sigs[id].ret, "f64") && !std::isfinite(bits_f64((uint64_t)ref))) { ++nonfinite; return; }
      { bool skipit = false; for (size_t i = 0; i < sig.size(); ++i) { if (sig[i] == "f64" && !std::isfinite(bits_f64((uint64_t)a[1 + i]))) skipit = true; if (sig[i] == "f32" && !std::isfinite(bits_f32((uint32_t)a[1 + i]))) skipit = true; } if (skipit) { ++nonfinite; return; } }
      fprintf(fo, "%s %" PRId64 " %" PRId64 " %" PRId64 " %" PRId64 "\n", g_sigs[id].name, a[1], a[2], a[3], ref); ++emitted;
    });
    fclose(fo);
    printf("{\"emitted\": %" PRIu64 ", \"disagree\": %" PRIu64 ", \"trapped\": %" PRIu64 ", \"runtime_only_entries\": %" PRIu64 ", \"non_finite_floating_skipped\": %" PRIu64 "}\n", emitted, disagree, trapped, notce, nonfinite);
    return 0;
  }
  if (cmd != "run") return 2;
  auto t0 = std::chrono::steady_clock::now();
  ctx.sample_stride = std::max<uint64_t>(1, ctx.ncases / 12);
  if (ctx.tier == "thorough") ctx.distinct = HashSet64((size_t)1 << 25);
  bool exhaustive = false; std::string note;
  if (!pre.empty()) {   // replay tier: saved failing cases of earlier runs (one per line: comma-separated args), evaluated first
    std::ifstream in(pre); std::string line;
    while (std::getline(in, line)) { Args a; std::istringstream ss(line); std::string t; while (std::getline(ss, t, ',')) if (!t.empty()) a.push_back((int64_t)strtoll(t.c_str(), 0, 10)); if (!a.empty()) { ctx.evaluate(*cl, a); ++ctx.extra["regression-seeds-replayed"]; } }
  }
  if (ctx.fail_last.set) { /* a saved case fails again: report it as is */ }
  else if (!strcmp(cl->engine, "rc")) {
    run_rc(ctx, *cl);
    // histories: rapidcheck shrinks the words (length, operands); finish by deleting whole steps while the
    // case still fails, so that the reported history contains only the steps that matter
    if (ctx.fail_last.set && !strcmp(cl->id, "C17.hist")) { Args s = minimize_case(ctx, *cl, ctx.fail_last.args); (void)s; }
  }
  else { SweepInfo si = cl->sweep(ctx, *cl); exhaustive = si.exhaustive; note = si.note;
         if (ctx.fail_last.set) { Args s = shrink_ints(ctx, *cl, ctx.fail_last.args); (void)s; } }
  double wall = std::chrono::duration<double>(std::chrono::steady_clock::now() - t0).count();
  if (!out.empty()) {
    write_result(ctx, *cl, out, wall, exhaustive, note);
    std::vector<uint64_t> hs; for (uint64_t h : ctx.distinct.t) if (h) hs.push_back(h);
    FILE* f = fopen((out + ".hashes").c_str(), "wb"); if (f) { if (!hs.empty()) fwrite(hs.data(), 8, hs.size(), f); fclose(f); }
  }
  return ctx.fail_last.set ? 1 : 0;
}
