// C02 multiplication, C03 division, C06 ordering/NaN/negation/abs, C15 floor/ceil, C18 shifts and &.
#include "registry.hpp"
#include "model.hpp"

static int64_t fin_clamp(i128 v) { return v > (i128)MAXF ? MAXF : v < -(i128)MAXF ? -MAXF : (int64_t)v; }
static int typed_entry(const char* prefix, int ti) { static std::unordered_map<std::string, int> cache; std::string k = std::string(prefix) + ITYPES[ti].tok; auto it = cache.find(k); if (it != cache.end()) return it->second; int id = entry_id_or_die(k); cache[k] = id; return id; }

// ================================================================ C02
static const int kMulOps[3] = { E_mul, E_muleq, E_fmul };
static void c02_ff_check(Ctx& ctx, const Args& a)
{
  if (a.size() != 3 || a[0] < 0 || a[0] > 2 || !m_finite128(a[1]) || !m_finite128(a[2])) { ctx.skip(); return; }
  i128 P = (i128)a[1] * a[2]; i128 aP = iabs128(P);
  bool fits64 = P >= -((i128)1 << 63) && P <= (((i128)1 << 63) - 1);
  bool outside = aP > (i128)MAXF * 65536;
  if (!fits64) ctx.cls("P-not-in-int64"); else if (aP >= ((i128)1 << 56)) ctx.cls("P-fits-int64-and>=2^56"); else ctx.cls("P-small");
  if (outside) ctx.cls("product-outside-range");
  if (aP >= ((i128)1 << 62)) ctx.nontriv();
  if (aP >= ((i128)1 << 63) - 131072 && aP <= ((i128)1 << 63) + 131072) ctx.cls("P-within-2^17-of-2^63");
  ctx.cls(g_sigs[kMulOps[a[0]]].name);
  if (ctx.verbose()) ctx.expect(strf("P=a*b=%s; fits int64: %d (then not NaN, |r*2^16-P|<=2^16); outside range: %d (then NaN)", i128s(P).c_str(), (int)fits64, (int)outside));
  for (size_t ci = 0; ci < ctx.cuts.size(); ++ci) {
    int64_t r; if (!ctx.call(ci, kMulOps[a[0]], a[1], a[2], r)) continue;
    MulVerdict v = m_mul_judge(a[1], a[2], r);
    if (v != MUL_OK) ctx.fail(ci, strf("%s(%" PRId64 ", %" PRId64 ") = %" PRId64 ": %s (exact raw product %s)", g_sigs[kMulOps[a[0]]].name, a[1], a[2], r,
        v == MUL_BAD_VALUE ? "more than one ulp from the exact product" : v == MUL_MISSING_NAN ? "exact product is outside [lowest,max] but the result is not NaN" : "NaN although the raw product fits int64", i128s(P).c_str()));
  }
}
static const i128 kMulTargets[] = { (i128)1 << 63, ((i128)1 << 63) - 1, (i128)MAXF * 65536, ((i128)MAXF + 1) * 65536, (i128)1 << 62, (i128)1 << 79, ((i128)1 << 63) + 65536, ((i128)1 << 63) - 65536, (i128)1 << 64, (i128)0x7fffffffffff0000ll };
static Args c02_ff_decode(Ctx&, Dec& d)
{
  int op = (int)d.range(0, 2); int64_t a = dec_raw(d); int mode = (int)d.range(0, 5); int64_t b = dec_raw(d);
  int ti = (int)d.range(0, 9); int dl = (int)d.range(-3, 3); bool neg = d.flag(); uint64_t u = d.u64(); int slack = (int)d.range(-3, 3);
  if ((mode == 1 || mode == 2) && a != 0) { i128 T = kMulTargets[ti]; if (neg) T = -T; b = fin_clamp(T / a + dl); }
  else if (mode == 5) { // raw product EXACTLY on an int64 limit: +-(2^63-1) = 7^2*73*127*337*92737*649657 split into two factors, -2^63 and 2^62 as powers of two
    static const int64_t pf[7] = { 7, 7, 73, 127, 337, 92737, 649657 }; int64_t f = 1, g = 1; for (int i = 0; i < 7; ++i) { if ((u >> i) & 1) f *= pf[i]; else g *= pf[i]; }
    int k = (int)((u >> 8) % 64);
    switch ((u >> 16) % 4) { case 0: a = f; b = neg ? -g : g; break; case 1: a = -f; b = neg ? -g : g; break;
      case 2: a = (int64_t)1 << (k % 63); b = -((int64_t)1 << (63 - k % 63 > 62 ? 62 : 63 - k % 63)); if (k % 63 == 0) { a = 2; b = -((int64_t)1 << 62); } break;
      default: a = (int64_t)1 << (k % 62); b = (int64_t)1 << (62 - k % 62); if (neg) a = -a; break; } }
  else if (mode >= 3) { // complementary bit lengths: len(a)+len(b) around 63
    int la = bitlen64((uint64_t)(a < 0 ? -a : a)); int lb = 63 - la + slack; if (lb < 1) lb = 1; if (lb > 63) lb = 63;
    uint64_t m = ((uint64_t)1 << lb) - 1; int64_t v = (int64_t)((u & m) | ((uint64_t)1 << (lb - 1))); if (v > MAXF) v = MAXF; b = neg ? -v : v; }
  return { op, a, b };
}
static Reg r_c02_ff({ "C02.mulff", "C02", "rc",
  "pairs of finite raw values x {*, *=, fixed_multiply}: independent, product-targeted (b = T/a +- 3 for T in {+-2^63, +-(2^63-1), +-MAXF*2^16, +-2^62, +-2^79, ...}) complementary bit lengths (len a + len b = 63 +- 3), and factor pairs whose raw product is exactly +-(2^63-1), -2^63 or +-2^62; oracle in 128-bit integers: result is NaN or |r*2^16 - a*b| <= 2^16; not NaN when a*b fits int64; NaN when |a*b| > MAXF*2^16; non-trivial = |a*b| >= 2^62",
  c02_ff_check, 24, c02_ff_decode, nullptr });

static const char* kMulIntForms[3] = { "mul_r_", "mul_l_", "muleq_" };
static void c02_int_check(Ctx& ctx, const Args& a)
{
  if (a.size() != 4 || a[0] < 0 || a[0] > 2 || a[1] < 0 || a[1] >= NITYPES || !m_finite128(a[2])) { ctx.skip(); return; }
  const IType& t = ITYPES[a[1]]; i128 n = tval(t, a[3]); i128 P = (i128)a[2] * n;
  int id = typed_entry(kMulIntForms[a[0]], (int)a[1]);
  ctx.cls(t.tok); ctx.cls(kMulIntForms[a[0]]);
  if (!m_finite128(P)) { ctx.cls("product-outside-range"); ctx.nontriv(); } else if (iabs128(P) >= ((i128)1 << 56)) { ctx.cls("large-in-range"); ctx.nontriv(); }
  if (iabs128(n) >= ((i128)1 << 31)) ctx.cls("|n|>=2^31");
  if (n >= ((i128)1 << 63)) ctx.cls("n>=2^63");
  if (ctx.verbose()) ctx.expect(m_finite128(P) ? "exact " + i128s(P) : "NaN (exact " + i128s(P) + ")");
  for (size_t ci = 0; ci < ctx.cuts.size(); ++ci) {
    int64_t r; if (!ctx.call(ci, id, a[2], a[3], r)) continue;
    if (!m_mul_scalar_ok(a[2], n, r)) ctx.fail(ci, strf("%s(%" PRId64 ", %s) = %" PRId64 ", exact product %s -> expected %s", g_sigs[id].name, a[2], i128s(n).c_str(), r, i128s(P).c_str(), m_finite128(P) ? "that value" : "NaN"));
  }
}
static Args c02_int_decode(Ctx&, Dec& d)
{
  int form = (int)d.range(0, 2); int ti = (int)d.range(0, NITYPES - 1); int64_t a = dec_raw(d); int64_t n = dec_int(d, ITYPES[ti]);
  int mode = (int)d.range(0, 3); int tg = (int)d.range(0, 3); int dl = (int)d.range(-2, 2); bool neg = d.flag();
  static const i128 T[] = { (i128)MAXF, (i128)1 << 63, ((i128)1 << 63) + 1, (i128)1 << 62 };
  if (mode == 1 && a != 0) { i128 q = (neg ? -T[tg] : T[tg]) / a + dl; n = (int64_t)(uint64_t)(u128)q; }        // n solved for the boundary (wraps into T)
  else if (mode == 2) { i128 nv = tval(ITYPES[ti], n); if (nv != 0) a = fin_clamp((neg ? -T[tg] : T[tg]) / nv + dl); }   // a solved for the boundary
  return { form, ti, a, n };
}
static Reg r_c02_int({ "C02.mulint", "C02", "rc",
  "(finite raw a, n) for every integral type int8..int64/uint8..uint64 x {a*n, n*a, a*=n}: n from the type's edge/bit-length classes, or solved so that a*n lands on +-MAXF / +-2^63 / +-2^62 (+-2); oracle: exact 128-bit product, result equals it when in [lowest,max], NaN otherwise; non-trivial = product out of range or >= 2^56",
  c02_int_check, 24, c02_int_decode, nullptr });

// ================================================================ C03
static const int kDivOps[3] = { E_div, E_diveq, E_fdiv };
static void c03_ff_check(Ctx& ctx, const Args& a)
{
  if (a.size() != 3 || a[0] < 0 || a[0] > 2 || !m_finite128(a[1]) || !m_finite128(a[2])) { ctx.skip(); return; }
  int64_t x = a[1], y = a[2]; i128 ax = iabs128(x), ay = iabs128(y);
  if (y == 0) { ctx.cls("zero-divisor"); ctx.nontriv(); }
  else if (ay <= 2) { ctx.cls("|b|<=2raw"); ctx.nontriv(); }
  if (ax >= ((i128)1 << 47)) { ctx.cls("|a|>=2^47"); ctx.nontriv(); } else if (ax >= ((i128)1 << 46)) { ctx.cls("2^46<=|a|<2^47"); ctx.nontriv(); } else ctx.cls("|a|<2^46");
  if (y != 0 && iabs128((i128)x * 65536 / y) >= ((i128)1 << 46)) { ctx.cls("|quotient|>=2^46"); ctx.nontriv(); }
  if (x != 0 && (x % ((int64_t)1 << 47)) == 0) ctx.cls("a=k*2^47");
  ctx.cls(g_sigs[kDivOps[a[0]]].name);
  for (size_t ci = 0; ci < ctx.cuts.size(); ++ci) {
    int64_t r; if (!ctx.call(ci, kDivOps[a[0]], x, y, r)) continue;
    DivVerdict v = m_div_judge(x, y, r);
    if (v != DIV_OK) ctx.fail(ci, strf("%s(%" PRId64 ", %" PRId64 ") = %" PRId64 ": %s", g_sigs[kDivOps[a[0]]].name, x, y, r,
        v == DIV_BAD_VALUE ? "more than 2^-16 from the exact quotient" : v == DIV_MISSING_NAN ? "zero divisor but the result is not NaN" : "NaN although |a| < 2^31"));
  }
}
static Args c03_ff_decode(Ctx&, Dec& d)
{
  int op = (int)d.range(0, 2); int mode = (int)d.range(0, 7); int64_t x = dec_raw(d), y = dec_raw(d); uint64_t u = d.u64(); int dl = (int)d.range(-3, 3); bool neg = d.flag();
  switch (mode) {
    case 0: break;
    case 1: y = (u % 16 == 0) ? 0 : (int64_t)(u % 5) - 2; break;                      // 0, +-1, +-2
    case 2: x = -(int64_t)(1 + u % 65535) * ((int64_t)1 << 47); y = (u >> 20) % 4 == 0 ? -1 : y; break;   // -k*2^47 (/ -1)
    case 3: x = ((int64_t)1 << 47) + dl; if (neg) x = -x; break;                                   // around the 2^47 limit
    case 4: x = dec_raw(d, 47); break;                                                            // |a| < 2^47: must not be NaN
    case 5: { int64_t q = dec_raw(d, 47); if (y == 0) y = 1; i128 xx = (i128)q * y / 65536 + dl; x = fin_clamp(xx); break; }  // quotient first
    case 6: x = dec_raw(d, 47); y = (int64_t)(u % 200001) - 100000; break;                      // small divisors
    case 7: y = neg ? -x : x; y = fin_clamp((i128)y + dl); break;                                // a / (+-a +- d)
  }
  return { op, x, y };
}
static Reg r_c03_ff({ "C03.divff", "C03", "rc",
  "pairs of finite raw values x {/, /=, fixed_division}: independent, divisor in {0,+-1,+-2}, dividend -k*2^47 (the INT64_MIN/-1 trap family), dividend at +-2^47+-3, |a|<2^47, quotient-first construction, small divisors, a/(+-a+-d); oracle in 128-bit integers: b==0 -> NaN; else NaN or |r*b - a*2^16| <= |b|; |a| < 2^47 -> not NaN; a call that does not return (SIGFPE) is a violation; non-trivial = |a|>=2^46 or |b|<=2 or |quotient|>=2^46",
  c03_ff_check, 32, c03_ff_decode, nullptr });

static const char* kDivIntForms[2] = { "div_r_", "diveq_" };
static void c03_int_check(Ctx& ctx, const Args& a)
{
  if (a.size() != 4 || a[0] < 0 || a[0] > 1 || a[1] < 0 || a[1] >= NITYPES || !m_finite128(a[2])) { ctx.skip(); return; }
  const IType& t = ITYPES[a[1]]; i128 n = tval(t, a[3]); int id = typed_entry(kDivIntForms[a[0]], (int)a[1]);
  ctx.cls(t.tok); ctx.cls(kDivIntForms[a[0]]);
  if (n == 0) { ctx.cls("zero-divisor"); ctx.nontriv(); } else if (n == -1 || n == 1) { ctx.cls("divisor+-1"); ctx.nontriv(); }
  if (iabs128(n) >= ((i128)1 << 31)) { ctx.cls("|n|>=2^31"); ctx.nontriv(); }
  if (n >= ((i128)1 << 63)) ctx.cls("n>=2^63");
  for (size_t ci = 0; ci < ctx.cuts.size(); ++ci) {
    int64_t r; if (!ctx.call(ci, id, a[2], a[3], r)) continue;
    if (!m_div_scalar_ok(a[2], n, r)) ctx.fail(ci, strf("%s(%" PRId64 ", %s) = %" PRId64 ", expected %s", g_sigs[id].name, a[2], i128s(n).c_str(), r, n == 0 ? "NaN" : i128s((i128)a[2] / n).c_str()));
  }
}
static Args c03_int_decode(Ctx&, Dec& d)
{
  int form = (int)d.range(0, 1); int ti = (int)d.range(0, NITYPES - 1); int64_t a = dec_raw(d); int64_t n = dec_int(d, ITYPES[ti]); int mode = (int)d.range(0, 5); uint64_t u = d.u64();
  if (mode == 1) n = (u % 8 == 0) ? 0 : (int64_t)(u % 3) - 1;
  else if (mode == 2) { i128 nv = tval(ITYPES[ti], n); if (nv != 0) a = fin_clamp((i128)(int64_t)(u >> 20) * nv + (int64_t)(u % 7) - 3); }   // near-exact multiples
  return { form, ti, a, n };
}
static Reg r_c03_int({ "C03.divint", "C03", "rc",
  "(finite raw a, n) for every integral divisor type x {a/n, a/=n}: n from the type's edge/bit-length classes incl. 0, +-1, uint64 >= 2^63, 2^64-1; oracle: n==0 -> NaN, else r == trunc(a/n) exactly (128-bit); a call that does not return is a violation; non-trivial = n in {0,+-1} or |n| >= 2^31",
  c03_int_check, 20, c03_int_decode, nullptr });

// ================================================================ C06
static void c06_cmp_check(Ctx& ctx, const Args& a)
{
  if (a.size() != 2 || a[0] == INT64_MIN || a[1] == INT64_MIN) { ctx.skip(); return; }
  int64_t x = a[0], y = a[1];
  bool special = m_isnan(x) || m_isnan(y) || x == MAXF || x == -MAXF || y == MAXF || y == -MAXF;
  i128 df = (i128)x - y;
  if (special) { ctx.cls("NaN-or-limit-operand"); ctx.nontriv(); }
  if (iabs128(df) <= 1) { ctx.cls("|a-b|<=1"); ctx.nontriv(); }
  // real-value order with +NaN above and -NaN below every finite value == order of the raw representations
  const bool exp[6] = { x == y, x != y, x < y, x <= y, x > y, x >= y };
  static const int ids[6] = { E_eq, E_ne, E_lt, E_le, E_gt, E_ge };
  for (size_t ci = 0; ci < ctx.cuts.size(); ++ci)
    for (int k = 0; k < 6; ++k) {
      int64_t r; if (!ctx.call(ci, ids[k], x, y, r)) continue;
      if ((r != 0) != exp[k] || (r != 0 && r != 1)) ctx.fail(ci, strf("%s(%" PRId64 ", %" PRId64 ") = %" PRId64 ", expected %d", g_sigs[ids[k]].name, x, y, r, (int)exp[k]));
    }
}
static Args c06_cmp_decode(Ctx&, Dec& d)
{
  int64_t x = dec_rawnan(d, 8), y = dec_rawnan(d, 8); int mode = (int)d.range(0, 5); int dl = (int)d.range(-2, 2);
  if (mode == 1) y = x; else if (mode == 2) { i128 t = (i128)x + dl; if (t > INT64_MAX) t = INT64_MAX; if (t < -(i128)INT64_MAX) t = -(i128)INT64_MAX; y = (int64_t)t; } else if (mode == 3) y = -x;
  return { x, y };
}
static Reg r_c06_cmp({ "C06.cmp", "C06", "rc",
  "pairs of raw values incl. +-NaN (1/8 each operand), equal, adjacent (+-1,+-2) and sign-mirrored pairs x the six comparison operators; oracle: order of the real values with +NaN above and -NaN below all finite values; results must be exactly 0/1; non-trivial = an operand is NaN or +-MAXF, or |a-b| <= 1",
  c06_cmp_check, 16, c06_cmp_decode, nullptr });

static void c06_unary_check(Ctx& ctx, const Args& a)
{
  if (a.size() != 1 || a[0] == INT64_MIN) { ctx.skip(); return; }
  int64_t x = a[0]; bool nan = m_isnan(x);
  if (nan) { ctx.cls("NaN"); ctx.nontriv(); } else if (iabs128(x) >= (i128)MAXF - 2) { ctx.cls("at-limit"); ctx.nontriv(); } else if (x < 0) ctx.cls("negative"); else ctx.cls("non-negative");
  if (!nan && iabs128(x) >= ((i128)1 << 62)) ctx.nontriv();
  for (size_t ci = 0; ci < ctx.cuts.size(); ++ci) {
    int64_t r;
    if (ctx.call(ci, E_isnan, x, r) && r != (nan ? 1 : 0)) ctx.fail(ci, strf("isnan(%" PRId64 ") = %" PRId64 ", expected %d", x, r, (int)nan));
    if (nan) continue;
    int64_t n1, n2, ab, abn;
    if (ctx.call(ci, E_neg, x, n1)) {
      if (n1 != -x) ctx.fail(ci, strf("-(%" PRId64 ") = %" PRId64, x, n1));
      if (ctx.call(ci, E_neg, n1, n2) && n2 != x) ctx.fail(ci, strf("-(-(%" PRId64 ")) = %" PRId64, x, n2));
    }
    if (ctx.call(ci, E_abs, x, ab)) {
      if (ab != (x < 0 ? -x : x) || ab < 0 || m_isnan(ab)) ctx.fail(ci, strf("abs(%" PRId64 ") = %" PRId64, x, ab));
      if (ctx.call(ci, E_abs, -x, abn) && abn != ab) ctx.fail(ci, strf("abs(-x) = %" PRId64 " != abs(x) = %" PRId64 " for x = %" PRId64, abn, ab, x));
    }
  }
}
static Args c06_unary_decode(Ctx&, Dec& d) { return { dec_rawnan(d, 10) }; }
static Reg r_c06_unary({ "C06.unary", "C06", "rc",
  "raw values incl. both NaN sentinels (1/10); oracle: isnan true exactly for +-INT64_MAX; for finite x: -x exact, -(-x)==x, abs(x)==|x|>=0 and finite, abs(-x)==abs(x); non-trivial = NaN, |x| >= 2^62 or within 2 of +-MAXF",
  c06_unary_check, 8, c06_unary_decode, nullptr });

// ================================================================ C15
static void c15_check(Ctx& ctx, const Args& a)
{
  const i128 LIM = ((i128)1 << 63) - 65536;      // |x| < 2^47 - 1 in value units
  if (a.size() != 1 || iabs128(a[0]) >= LIM) { ctx.skip(); return; }
  int64_t x = a[0]; bool integer = (x & 0xffff) == 0;
  i128 fl = (i128)(x >> 16) * 65536; i128 ce = integer ? fl : fl + 65536;   // unique values satisfying the bracketing inequalities
  if (integer) { ctx.cls("integer-valued"); ctx.nontriv(); } else if ((x & 0xffff) <= 2 || (x & 0xffff) >= 0xfffe) { ctx.cls("within-2raw-of-integer"); ctx.nontriv(); } else ctx.cls("fractional");
  if (iabs128(x) >= ((i128)1 << 62)) { ctx.cls("|raw|>=2^62"); ctx.nontriv(); }
  if (x < 0) ctx.cls("negative");
  if (ctx.verbose()) ctx.expect("floor " + i128s(fl) + " ceil " + i128s(ce));
  for (size_t ci = 0; ci < ctx.cuts.size(); ++ci) {
    int64_t f, c, fn;
    if (ctx.call(ci, E_floor, x, f) && f != (int64_t)fl) ctx.fail(ci, strf("floor(%" PRId64 ") = %" PRId64 ", expected %s", x, f, i128s(fl).c_str()));
    if (ctx.call(ci, E_ceil, x, c)) {
      if (c != (int64_t)ce) ctx.fail(ci, strf("ceil(%" PRId64 ") = %" PRId64 ", expected %s", x, c, i128s(ce).c_str()));
      if (ctx.call(ci, E_floor, -x, fn) && c != -fn) ctx.fail(ci, strf("ceil(x) = %" PRId64 " != -floor(-x) = %" PRId64 " for x = %" PRId64, c, -fn, x));
    }
  }
}
static Args c15_decode(Ctx&, Dec& d)
{
  int mode = (int)d.range(0, 2); int64_t x = dec_raw(d); int dl = (int)d.range(-2, 2);
  if (mode == 1) x = (int64_t)((uint64_t)x & ~0xffffull) ; else if (mode == 2 && (d.u64() & 1)) x = (int64_t)(((uint64_t)x & ~0xffffull)) + dl;
  const i128 LIM = ((i128)1 << 63) - 65536; if (x >= LIM) x = (int64_t)(LIM - 1); if (x <= -LIM) x = (int64_t)(-LIM + 1);
  return { x };
}
static Reg r_c15({ "C15.floorceil", "C15", "rc",
  "finite raw x with |x| < 2^47-1 (|raw| < 2^63-65536), one third integer-valued, one sixth within +-2 raw of an integer; oracle: floor(x) = 2^16*floor(raw/2^16), ceil(x) = the unique integer value with ceil-1 < x <= ceil (so ceil(x) == x on integers), ceil(x) == -floor(-x); non-trivial = integer-valued, within 2 raw of an integer, or |raw| >= 2^62",
  c15_check, 12, c15_decode, nullptr });

// ================================================================ C18
static void c18_shift_check(Ctx& ctx, const Args& a)
{
  if (a.size() != 3 || a[0] < 0 || a[0] > 1 || !m_finite128(a[1]) || a[2] > 63 || a[2] < INT32_MIN) { ctx.skip(); return; }
  int64_t x = a[1], r = a[2]; bool left = a[0] == 1;
  ctx.cls(left ? "shl" : "shr");
  if (r < 0) { ctx.cls("negative-count"); ctx.nontriv(); } else if (r == 0 || r >= 62) { ctx.cls("count-in-{0,62,63}"); ctx.nontriv(); }
  if (x < 0) { ctx.cls("negative-x"); ctx.nontriv(); }
  for (size_t ci = 0; ci < ctx.cuts.size(); ++ci) {
    int64_t v; if (!ctx.call(ci, left ? E_shl : E_shr, x, r, v)) continue;
    if (r < 0) { if (!m_isnan(v)) ctx.fail(ci, strf("%s(%" PRId64 ", %" PRId64 ") = %" PRId64 ", expected NaN for a negative count", left ? "shl" : "shr", x, r, v)); continue; }
    if (!left) { int64_t e = x >> r; if (v != e) ctx.fail(ci, strf("shr(%" PRId64 ", %" PRId64 ") = %" PRId64 ", expected floor(x/2^r) = %" PRId64, x, r, v, e)); continue; }
    i128 p = (i128)x << r;   // exact (|x| < 2^63, r <= 63: fits 128 bits)
    if (ci == 0 && !m_finite128(p)) { ctx.cls("shl-out-of-range"); ctx.nontriv(); }
    if (m_finite128(p)) { if (v != (int64_t)p) ctx.fail(ci, strf("shl(%" PRId64 ", %" PRId64 ") = %" PRId64 ", expected %s", x, r, v, i128s(p).c_str())); }
    else if ((x > 0 && v < 0) || (x < 0 && v > 0)) ctx.fail(ci, strf("shl(%" PRId64 ", %" PRId64 ") = %" PRId64 " has the opposite sign to x", x, r, v));
  }
}
static Args c18_shift_decode(Ctx&, Dec& d)
{
  int op = (int)d.range(0, 1); int64_t x = dec_raw(d); int64_t r = dec_shift(d); int mode = (int)d.range(0, 3);
  if (mode == 1 && r >= 0) { // place x so that x*2^r is near the range boundary
    int len = 63 - (int)r + (int)d.range(-1, 1); if (len < 1) len = 1; if (len > 63) len = 63;
    uint64_t m = ((uint64_t)1 << len) - 1; int64_t v = (int64_t)((d.u64() & m) | ((uint64_t)1 << (len - 1))); if (v > MAXF) v = MAXF; x = x < 0 ? -v : v; }
  return { op, x, r };
}
static Reg r_c18_shift({ "C18.shift", "C18", "rc",
  "(finite raw x, count r in [INT_MIN, 63]) x {>>, <<}: counts uniform in [0,63], edge counts, negative counts; a quarter of the cases place x so that x*2^r straddles the range limit; oracle: r<0 -> NaN; x>>r == floor(x/2^r); x<<r == x*2^r when that is in [lowest,max], otherwise the result must not have the opposite sign to x; non-trivial = negative count, count in {0,62,63}, negative x, or x*2^r out of range",
  c18_shift_check, 16, c18_shift_decode, nullptr });

static void c18_and_check(Ctx& ctx, const Args& a)
{
  if (a.size() != 2 || a[0] == INT64_MIN || a[1] == INT64_MIN) { ctx.skip(); return; }
  if (a[0] < 0 || a[1] < 0) { ctx.cls("negative-operand"); ctx.nontriv(); } else ctx.cls("non-negative");
  for (size_t ci = 0; ci < ctx.cuts.size(); ++ci) {
    int64_t v; if (ctx.call(ci, E_band, a[0], a[1], v) && v != (a[0] & a[1])) ctx.fail(ci, strf("%" PRId64 " & %" PRId64 " = %" PRId64 ", expected %" PRId64, a[0], a[1], v, a[0] & a[1]));
  }
}
static Args c18_and_decode(Ctx&, Dec& d) { int64_t x = dec_rawnan(d, 16), y = dec_rawnan(d, 16); int mode = (int)d.range(0, 3); uint64_t u = d.u64(); if (mode == 0) y = (int64_t)u; if (y == INT64_MIN) y = 0; return { x, y }; }
static Reg r_c18_and({ "C18.and", "C18", "rc",
  "pairs of raw values (finite, NaN sentinels, uniform 64-bit patterns); oracle: bitwise AND of the representations; non-trivial = a negative operand (sign bit participates)",
  c18_and_check, 16, c18_and_decode, nullptr });

// ================================================================ C02.const / C03.const
// generated programs in which the integral scalar is a literal of its type: args = [table index, a]
static void cs_check(Ctx& ctx, const Args& a, bool want_div)
{
  if (a.size() != 2 || !m_finite128(a[1]) || ctx.cuts.empty() || !ctx.cuts[0].stable || a[0] < 0 || a[0] >= ctx.cuts[0].ns) { ctx.skip(); return; }
  int idx = (int)a[0]; const Cut::SEntry& se = ctx.cuts[0].stable[idx]; bool isdiv = se.shape == 2 || se.shape == 4; if (isdiv != want_div) { ctx.skip(); return; }
  const IType& t = ITYPES[se.type]; i128 n = tval(t, se.n); int64_t x = a[1];
  static const char* sh[5] = { "a*N", "N*a", "a/N", "a*=N", "a/=N" }; ctx.cls(sh[se.shape]); ctx.cls(t.tok);
  bool pow2 = n > 0 && (n & (n - 1)) == 0; if (pow2) ctx.cls("N-power-of-two");
  if (isdiv) { if (x < 0 && (i128)x % n != 0) { ctx.cls("negative-inexact-dividend"); ctx.nontriv(); } if (iabs128(n) >= ((i128)1 << 31)) ctx.nontriv(); }
  else { i128 P = (i128)x * n; if (!m_finite128(P)) { ctx.cls("product-outside-range"); ctx.nontriv(); } else if (iabs128(P) >= ((i128)1 << 56)) ctx.nontriv(); }
  for (size_t ci = 0; ci < ctx.cuts.size(); ++ci) {
    const Cut& cu = ctx.cuts[ci]; if (!cu.stable || cu.ns <= idx || cu.stable[idx].n != se.n || cu.stable[idx].shape != se.shape || cu.stable[idx].type != se.type) { ctx.fail(ci, "generated scalar tables differ between configurations (harness error)"); continue; }
    CallResult r = cut_call_s(cu, idx, x); ++ctx.executions;
    if (ctx.verbose()) ctx.case_calls.push_back(strf("%s %s(a=%" PRId64 ", N=%s %s) -> %" PRId64, cu.name.c_str(), sh[se.shape], x, t.tok, i128s(n).c_str(), r.v));
    if (r.trap) { ctx.fail(ci, strf("%s with literal N = %s (%s), a=%" PRId64 " did not return: %s", sh[se.shape], i128s(n).c_str(), t.tok, x, g_trap_why)); continue; }
    bool ok = isdiv ? m_div_scalar_ok(x, n, r.v) : m_mul_scalar_ok(x, n, r.v);
    if (!ok) ctx.fail(ci, strf("%s with literal N = %s (%s), a=%" PRId64 " = %" PRId64 ", expected %s", sh[se.shape], i128s(n).c_str(), t.tok, x, r.v, isdiv ? i128s((i128)x / n).c_str() : (m_finite128((i128)x * n) ? i128s((i128)x * n).c_str() : "NaN")));
  }
}
static void c02_const_check(Ctx& ctx, const Args& a) { cs_check(ctx, a, false); }
static void c03_const_check(Ctx& ctx, const Args& a) { cs_check(ctx, a, true); }
template<bool DIV> static Args cs_decode(Ctx& ctx, Dec& d)
{
  int ns = ctx.cuts.empty() || !ctx.cuts[0].stable ? 1 : ctx.cuts[0].ns; int idx = (int)d.range(0, ns - 1); int64_t a = dec_raw(d); int mode = (int)d.range(0, 3); int tg = (int)d.range(0, 3); int dl = (int)d.range(-2, 2); bool neg = d.flag(); uint64_t u = d.u64();
  if (ctx.cuts[0].stable) {
    // walk to the next entry of the wanted kind (mul or div shapes alternate in the table)
    for (int k = 0; k < 5; ++k) { int sh = ctx.cuts[0].stable[idx].shape; bool isdiv = sh == 2 || sh == 4; if (isdiv == DIV) break; idx = (idx + 1) % ns; }
    const Cut::SEntry& se = ctx.cuts[0].stable[idx]; i128 n = tval(ITYPES[se.type], se.n);
    static const i128 T[] = { (i128)MAXF, (i128)1 << 63, ((i128)1 << 63) + 1, (i128)1 << 62 };
    if (!DIV && mode >= 1 && n != 0) a = fin_clamp((neg ? -T[tg] : T[tg]) / n + dl);
    if (DIV && mode >= 1 && n != 0) { i128 q = (i128)(int64_t)(u >> (8 + u % 40)); i128 v = q * n + (mode == 1 ? 0 : (i128)(u % 7) - 3); if (neg) v = -v; a = fin_clamp(v); }
  }
  return { idx, a };
}
static Reg r_c02_const({ "C02.const", "C02", "rc",
  "generated programs: a*N, N*a, a*=N with N a LITERAL of each integral type (int8..uint64, long long, unsigned long long): powers of two (compilers substitute shifts, __builtin_constant_p paths fire), non-powers, values beyond 2^31 / 2^63, negatives - about 20 constants per type generated from VERIF_SEED, compiled under every configuration; the run-time operand is solved so that a*N lands on +-MAXF / +-2^63 / +-2^62; oracle: exact 128-bit product or NaN; non-trivial = product out of range or >= 2^56",
  c02_const_check, 16, cs_decode<false>, nullptr });
static Reg r_c03_const({ "C03.const", "C03", "rc",
  "generated programs: a/N and a/=N with N a LITERAL of each integral type (as C02.const); dividends are near-multiples q*N+-3 of both signs; oracle: trunc(a/N) exactly, no trap; non-trivial = negative inexact dividend or |N| >= 2^31",
  c03_const_check, 16, cs_decode<true>, nullptr });

// ================================================================ C18.const: literal shift counts
static void c18_const_check(Ctx& ctx, const Args& a)
{
  if (a.size() != 2 || !m_finite128(a[1]) || ctx.cuts.empty() || !ctx.cuts[0].ktable || a[0] < 0 || a[0] >= ctx.cuts[0].nk) { ctx.skip(); return; }
  int idx = (int)a[0]; const Cut::KEntry& ke = ctx.cuts[0].ktable[idx]; if (ke.shape != 7 && ke.shape != 8) { ctx.skip(); return; }
  int64_t x = a[1], r = ke.k; bool left = ke.shape == 7; ctx.cls(left ? "a<<R" : "a>>R"); if (x < 0 || r < 0 || r >= 62) ctx.nontriv();
  i128 p = r >= 0 ? ((i128)x << r) : 0; if (left && r >= 0 && !m_finite128(p)) { ctx.cls("shl-out-of-range"); ctx.nontriv(); }
  for (size_t ci = 0; ci < ctx.cuts.size(); ++ci) {
    const Cut& cu = ctx.cuts[ci]; if (!cu.ktable || cu.nk <= idx || cu.ktable[idx].k != r || cu.ktable[idx].shape != ke.shape) { ctx.fail(ci, "generated tables differ between configurations (harness error)"); continue; }
    CallResult cr = cut_call_k(cu, idx, x); ++ctx.executions; int64_t v = cr.v;
    if (cr.trap) { ctx.fail(ci, strf("%s with literal count %" PRId64 ", x=%" PRId64 " did not return: %s", left ? "x<<R" : "x>>R", r, x, g_trap_why)); continue; }
    if (r < 0) { if (!m_isnan(v)) ctx.fail(ci, strf("shift by the literal negative count %" PRId64 " of %" PRId64 " = %" PRId64 ", expected NaN", r, x, v)); continue; }
    if (!left) { if (v != (x >> r)) ctx.fail(ci, strf("%" PRId64 " >> literal %" PRId64 " = %" PRId64 ", expected %" PRId64, x, r, v, x >> r)); continue; }
    if (m_finite128(p)) { if (v != (int64_t)p) ctx.fail(ci, strf("%" PRId64 " << literal %" PRId64 " = %" PRId64 ", expected %s", x, r, v, i128s(p).c_str())); }
    else if ((x > 0 && v < 0) || (x < 0 && v > 0)) ctx.fail(ci, strf("%" PRId64 " << literal %" PRId64 " = %" PRId64 " has the opposite sign to x", x, r, v));
  }
}
static Args c18_const_decode(Ctx& ctx, Dec& d)
{
  int nk = ctx.cuts.empty() || !ctx.cuts[0].ktable ? 1 : ctx.cuts[0].nk; int first = 0; if (ctx.cuts[0].ktable) { while (first < nk && ctx.cuts[0].ktable[first].shape < 7) ++first; }
  int idx = first + (int)d.range(0, nk - first - 1 > 0 ? nk - first - 1 : 0); int64_t x = dec_raw(d); int mode = (int)d.range(0, 2); uint64_t u = d.u64(); bool neg = d.flag();
  if (mode && ctx.cuts[0].ktable && ctx.cuts[0].ktable[idx].k >= 0) { int len = 63 - (int)ctx.cuts[0].ktable[idx].k + (int)(u % 3) - 1; if (len < 1) len = 1; if (len > 63) len = 63; uint64_t m = ((uint64_t)1 << len) - 1; int64_t v = (int64_t)(((u >> 8) & m) | ((uint64_t)1 << (len - 1))); if (v > MAXF) v = MAXF; x = neg ? -v : v; }
  return { idx, x };
}
static Reg r_c18_const({ "C18.const", "C18", "rc",
  "generated programs: x << R and x >> R with R a LITERAL shift count (0,1,2,15..17,31..33,46..48,61..63,-1,-64), compiled under every configuration (a compile-time-constant count takes different paths in the optimiser and in __builtin_constant_p shortcuts); x placed so that x*2^R straddles the range limit; oracle as C18.shift; non-trivial = negative x, negative or >= 62 count, x*2^R out of range",
  c18_const_check, 12, c18_const_decode, nullptr });

// ================================================================ two uses of one object with a modification in between
// (a function that takes the object by reference / as *this and is wrongly declared gnu::const lets the optimiser
// reuse the first result). args = [which, a, b, r]; expected = the single-use entry applied to a+b by the same build.
struct TwiceSpec { int twice, single; bool has_r; };
static const TwiceSpec kTwiceC04[5] = { { E_to_twice_i32, E_to_i32, false }, { E_to_twice_u16, E_to_u16, false }, { E_to_twice_i64, E_to_i64, false }, { E_f2a_twice_i32, E_f2a_i32, false }, { E_f2a_twice_u8, E_f2a_u8, false } };
static const TwiceSpec kTwiceC18[2] = { { E_shl_twice, E_shl, true }, { E_shr_twice, E_shr, true } };
static const TwiceSpec kTwiceC06[1] = { { E_abs_twice, E_abs, false } };
static void twice_check(Ctx& ctx, const Args& a, const TwiceSpec* specs, int n)
{
  if (a.size() != 4 || a[0] < 0 || a[0] >= n || !m_finite128(a[1]) || !m_finite128(a[2]) || a[3] < 0 || a[3] > 63) { ctx.skip(); return; }
  const TwiceSpec& s = specs[a[0]]; i128 sum = (i128)a[1] + a[2]; if (!m_finite128(sum)) { ctx.skip(); return; }
  ctx.cls(g_sigs[s.twice].name); if (a[2] != 0) ctx.nontriv();
  for (size_t ci = 0; ci < ctx.cuts.size(); ++ci) {
    int64_t got, exp; if (!ctx.call(ci, s.twice, a[1], a[2], s.has_r ? a[3] : 0, got)) continue;
    if (!(s.has_r ? ctx.call(ci, s.single, (int64_t)sum, a[3], exp) : ctx.call(ci, s.single, (int64_t)sum, exp))) continue;
    if (got != exp) ctx.fail(ci, strf("%s: second use of the same object after x += %" PRId64 " gives %" PRId64 ", a fresh call on the modified value %s gives %" PRId64 " (x was %" PRId64 ")", g_sigs[s.twice].name, a[2], got, i128s(sum).c_str(), exp, a[1]));
  }
}
static void c04_twice_check(Ctx& c, const Args& a) { twice_check(c, a, kTwiceC04, 5); }
static void c18_twice_check(Ctx& c, const Args& a) { twice_check(c, a, kTwiceC18, 2); }
static void c06_twice_check(Ctx& c, const Args& a) { twice_check(c, a, kTwiceC06, 1); }
template<int N> static Args twice_decode(Ctx&, Dec& d) { int w = (int)d.range(0, N - 1); int64_t x = dec_raw(d, 60), y = dec_raw(d, 40); int64_t r = (int64_t)(d.u64() % 24); if (d.range(0, 3) == 0) y = (int64_t)(d.u64() % 1000) * 65536 + 65536; return { w, x, y, r }; }
static const char* kTwiceDesc = "call context: one fixed_t object is used, modified (x += b) and used again inside one function (static_cast<T>, fixed_to_arithmetic<T>, <<, >>, abs), on every build; oracle: the second result equals the same operation applied by the same build to a fresh object holding a+b; non-trivial = b != 0";
static Reg r_c04_twice({ "C04.twice", "C04", "rc", kTwiceDesc, c04_twice_check, 16, twice_decode<5>, nullptr });
static Reg r_c18_twice({ "C18.twice", "C18", "rc", kTwiceDesc, c18_twice_check, 16, twice_decode<2>, nullptr });
static Reg r_c06_twice({ "C06.twice", "C06", "rc", kTwiceDesc, c06_twice_check, 16, twice_decode<1>, nullptr });
