// Structured decoding of random words into typed arguments ("generators by construction").
// Every random choice of a generated case comes from the word stream, which is supplied by
// rapidcheck (engine E1: random words, shrunk towards zero) or by libFuzzer (engine E3: the input
// bytes). Decoders are written so that the all-zero stream gives the simplest case of each class.
#pragma once
#include "core.hpp"
#include <cmath>

static const int64_t MAXF = 0x7FFFFFFFFFFFFFFEll;
static const int64_t NANP = INT64_MAX, NANN = -INT64_MAX;
static inline bool m_isnan(int64_t r) { return r == NANP || r == NANN; }
static inline bool m_finite128(i128 v) { return v >= -(i128)MAXF && v <= (i128)MAXF; }
static inline i128 iabs128(i128 v) { return v < 0 ? -v : v; }
static inline int bitlen64(uint64_t v) { return v ? 64 - __builtin_clzll(v) : 0; }
static inline int bitlen128(u128 v) { uint64_t hi = (uint64_t)(v >> 64); return hi ? 64 + bitlen64(hi) : bitlen64((uint64_t)v); }

struct Dec {
  const uint64_t* w; size_t n; size_t i = 0;
  Dec(const uint64_t* w_, size_t n_) : w(w_), n(n_) {}
  uint64_t next() { return i < n ? w[i++] : (++i, 0); }
  uint64_t u64() { return next(); }
  int64_t range(int64_t lo, int64_t hi) { uint64_t span = (uint64_t)(hi - lo) + 1; uint64_t x = next(); return span == 0 ? (int64_t)x : lo + (int64_t)(x % span); }
  bool flag() { return next() & 1; }
  bool chance(unsigned num, unsigned den) { return next() % den < num; }
};

struct IType { const char* tok; int bits; bool sgn; };
static const IType ITYPES[10] = { {"i8", 8, true}, {"u8", 8, false}, {"i16", 16, true}, {"u16", 16, false}, {"i32", 32, true}, {"u32", 32, false}, {"i64", 64, true}, {"u64", 64, false}, {"ll", 64, true}, {"ull", 64, false} };   // long long / unsigned long long are distinct types from int64_t / uint64_t on LP64
static const int NITYPES = 10;
// mathematical value of static_cast<T>(pattern)
static inline i128 tval(const IType& t, int64_t pat)
{
  if (t.bits == 64) return t.sgn ? (i128)pat : (i128)(uint64_t)pat;
  uint64_t m = ((uint64_t)1 << t.bits) - 1, u = (uint64_t)pat & m;
  if (t.sgn && (u >> (t.bits - 1))) return (i128)u - ((i128)1 << t.bits);
  return (i128)u;
}
static inline i128 tmin(const IType& t) { return t.sgn ? -((i128)1 << (t.bits - 1)) : 0; }
static inline i128 tmax(const IType& t) { return t.sgn ? ((i128)1 << (t.bits - 1)) - 1 : ((i128)1 << t.bits) - 1; }
static inline int itype_index(const char* tok) { for (int i = 0; i < NITYPES; ++i) if (!strcmp(ITYPES[i].tok, tok)) return i; return -1; }

// library constants used to plant boundary values (read from the first loaded CUT)
struct DecConsts { int64_t phi = 205887, pidiv2 = 102944, pidiv4 = 51472; };
extern DecConsts g_dc;
// set by the libFuzzer target: half of the fixed_t operands are then taken verbatim from the input
// words, so that libFuzzer's compare tracing (constants seen in comparisons are written into the
// input) reaches operand values no class plants. rapidcheck runs are unaffected.
extern bool g_fuzz_mode;

static inline int64_t clamp_mag(i128 v, int maxbits)
{
  // fold into |v| < 2^maxbits (maxbits == 63: into [-MAXF, MAXF])
  if (maxbits >= 63) { if (v > (i128)MAXF) return MAXF; if (v < -(i128)MAXF) return -MAXF; return (int64_t)v; }
  i128 lim = ((i128)1 << maxbits) - 1;
  if (v > lim) return (int64_t)lim; if (v < -lim) return (int64_t)-lim; return (int64_t)v;
}

// One finite raw value with |raw| < 2^maxbits (or in [-MAXF, MAXF] for maxbits = 63).
// Consumes exactly 5 words.
static inline int64_t dec_raw(Dec& d, int maxbits = 63)
{
  uint64_t kw = d.u64(); int kind = (int)(kw % 20); uint64_t u = d.u64(); int k = (int)d.range(0, 62); int dl = (int)d.range(0, 6); bool neg = d.flag();
  static const int64_t delta[7] = { 0, 1, -1, 2, -2, 3, -3 };
  i128 v = 0;
  if (g_fuzz_mode && (kw >> 63)) { i128 w = (i128)(int64_t)u; if (maxbits < 63) { i128 lim = ((i128)1 << maxbits) - 1; if (w > lim || w < -lim) w %= (lim + 1); } return clamp_mag(w, maxbits); }
  if (kind <= 3) { uint64_t z = u % 140001; v = (z & 1) ? -(i128)((z + 1) / 2) : (i128)(z / 2); if (neg) v = -v; return clamp_mag(v, maxbits); }
  else if (kind <= 9) { int len = 1 + k % maxbits; uint64_t m = len >= 64 ? ~0ull : (((uint64_t)1 << len) - 1); v = (i128)((u & m) | ((uint64_t)1 << (len - 1))); }
  else if (kind <= 12) { int kk = k % (maxbits >= 63 ? 63 : maxbits + 1); v = ((i128)1 << kk) + delta[dl]; }
  else if (kind <= 14) { i128 top = maxbits >= 63 ? (i128)MAXF : (((i128)1 << maxbits) - 1); v = top - (i128)(u % 70001); }
  else if (kind <= 16) { int len = 17 + k % (maxbits > 17 ? maxbits - 16 : 1); if (len > maxbits) len = maxbits; uint64_t m = len >= 64 ? ~0ull : (((uint64_t)1 << len) - 1); v = (i128)(((u & m) | ((uint64_t)1 << (len - 1))) & ~0xffffull) + (dl < 3 ? delta[dl] : 0); }
  else if (kind <= 18) {
    const int64_t P = g_dc.phi, H = g_dc.pidiv2, Q = g_dc.pidiv4;
    const int64_t cs[] = { P, H, Q, 2 * P, 3 * P / 2, P + H, 3 * H, 2 * P + H, 28672, 45056, 77824, 159744, 39322, 65536, 32768, 16384ll << 16, 1ll << 30, 1ll << 31, 1ll << 46, 1ll << 47, 360ll << 16, 180ll << 16, 90ll << 16, H + Q, P / 2 };
    int nc = (int)(sizeof cs / sizeof cs[0]);
    int64_t base = cs[u % nc]; int64_t mult = 1 + (int64_t)((u >> 8) % 4 == 0 ? (u >> 16) % 1000 : 0);
    v = (i128)base * ((u % nc) < 8 ? mult : 1) + delta[dl];
  }
  else { v = (i128)(int64_t)u; if (maxbits < 63) v = (i128)((int64_t)u >> (63 - maxbits)); return clamp_mag(v, maxbits); }
  if (neg) v = -v;
  return clamp_mag(v, maxbits);
}
// raw value or (with probability 1/nanden) one of the two NaN sentinels. Consumes 6 words.
static inline int64_t dec_rawnan(Dec& d, unsigned nanden = 16)
{
  uint64_t s = d.u64(); int64_t v = dec_raw(d, 63);
  if (s % nanden == nanden - 1) return (s >> 32) & 1 ? NANN : NANP;
  return v;
}

// integral argument for type t (returned as an int64 bit pattern; the wrapper truncates with
// static_cast<T>, so every pattern is a valid input). Consumes 4 words.
static inline int64_t dec_int(Dec& d, const IType& t)
{
  int kind = (int)d.range(0, 15); uint64_t u = d.u64(); int dl = (int)d.range(0, 6); bool neg = d.flag();
  static const int64_t delta[7] = { 0, 1, -1, 2, -2, 3, -3 };
  i128 v;
  if (kind <= 3) { v = (i128)(u % 1025) - (t.sgn ? 512 : 0); }
  else if (kind <= 7) { int len = 1 + (int)((u >> 58) % (unsigned)t.bits); uint64_t m = len >= 64 ? ~0ull : (((uint64_t)1 << len) - 1); v = (i128)(((u & m) | ((uint64_t)1 << (len - 1)))); if (neg && t.sgn) v = -v; }
  else if (kind <= 9) { const i128 e[] = { tmin(t), tmin(t) + 1, -1, 0, 1, tmax(t) - 1, tmax(t), tmax(t) / 2, tmax(t) / 2 + 1 }; v = e[u % 9]; }
  else if (kind <= 13) { const i128 e[] = { ((i128)1 << 31) - 1, (i128)1 << 31, (i128)1 << 32, (i128)1 << 63, ((i128)1 << 64) - 1, (i128)1 << 15, (i128)1 << 16, 360, 180, 90, 127, 255, (i128)1 << 47, (i128)1 << 48 }; v = e[u % 14] + delta[dl]; if (neg && t.sgn) v = -v; }
  else { v = (i128)(int64_t)u; }
  return (int64_t)(uint64_t)(u128)v;    // wrap modulo 2^64; the wrapper wraps further to T
}

// IEEE bit patterns. Consume 4 words each.
static inline uint32_t dec_f32(Dec& d)
{
  int kind = (int)d.range(0, 15); uint64_t u = d.u64(); int e = (int)d.range(0, 255); bool neg = d.flag();
  uint32_t man = (uint32_t)(u & 0x7fffff), sign = neg ? 0x80000000u : 0, ex;
  if (kind <= 8) ex = 127 - 20 + (uint32_t)(e % 54);           // [2^-20, 2^33]
  else if (kind <= 10) ex = (uint32_t)e;                         // any exponent incl. 0 and 255
  else if (kind == 11) { static const uint32_t sp[] = { 0x00000000u, 0x00000001u, 0x007fffffu, 0x00800000u, 0x7f800000u, 0x7fc00000u, 0x7f800001u, 0x4f000000u /*2^31*/, 0x4effffffu, 0x4f000001u, 0x3f800000u, 0x3f000000u, 0x37800000u /*2^-16*/, 0x37000000u /*2^-17*/, 0x36ffffffu, 0x37000001u }; return sp[u % 16] | sign; }
  else if (kind == 12) { ex = 127 - 20 + (uint32_t)(e % 54); static const uint32_t mp[] = { 0, 1, 0x7fffff, 0x400000, 0x3fffff, 0x400001, 0x7ffffe, 0x200000 }; man = mp[u % 8]; }
  else { // a value k + 0.5 in raw units (exact tie) when representable: (2k+1) / 2^17
    uint32_t k = (uint32_t)((u >> 8) % (1u << 23)); float f = (float)(2.0 * k + 1.0) / 131072.0f; uint32_t b; memcpy(&b, &f, 4); return b | sign;
  }
  return sign | (ex << 23) | man;
}
static inline uint64_t dec_f64(Dec& d)
{
  int kind = (int)d.range(0, 15); uint64_t u = d.u64(); int e = (int)d.range(0, 2047); bool neg = d.flag();
  uint64_t man = u & 0xfffffffffffffull, sign = neg ? 0x8000000000000000ull : 0, ex;
  if (kind <= 7) ex = 1023 - 20 + (uint64_t)(e % 54);
  else if (kind <= 9) ex = (uint64_t)e;
  else if (kind == 10) { static const uint64_t sp[] = { 0x0ull, 0x1ull, 0x000fffffffffffffull, 0x0010000000000000ull, 0x7ff0000000000000ull, 0x7ff8000000000000ull, 0x7ff0000000000001ull, 0x41e0000000000000ull /*2^31*/, 0x41dfffffffc00000ull /*2^31-1*/, 0x41dfffffffbfffffull, 0x41dfffffffc00001ull, 0x41dfffffff800000ull, 0x3ff0000000000000ull, 0x3ef0000000000000ull /*2^-16*/, 0x3ee0000000000000ull /*2^-17*/, 0x3edfffffffffffffull }; return sp[u % 16] | sign; }
  else if (kind == 11) { ex = 1023 - 20 + (uint64_t)(e % 54); static const uint64_t mp[] = { 0, 1, 0xfffffffffffffull, 0x8000000000000ull, 0x7ffffffffffffull, 0x8000000000001ull, 0xffffffffffffeull, 0x4000000000000ull }; man = mp[u % 8]; }
  else if (kind <= 13) { // exact tie (2k+1)/2^17, |v| up to 2^31
    uint64_t k = (u >> 8) % ((uint64_t)1 << 47); double f = (double)(2 * k + 1) / 131072.0; uint64_t b; memcpy(&b, &f, 8); return b | sign;
  }
  else { // near a tie: tie +- 1 ulp of the double
    uint64_t k = (u >> 8) % ((uint64_t)1 << 40); double f = (double)(2 * k + 1) / 131072.0; uint64_t b; memcpy(&b, &f, 8); b += (u & 1) ? 1 : -1; return b | sign;
  }
  return sign | (ex << 52) | man;
}
// values of floating type that are exact integers / in-range values (used by C16/C20 float clauses)
static inline uint32_t f32_bits(float f) { uint32_t b; memcpy(&b, &f, 4); return b; }
static inline float bits_f32(uint32_t b) { float f; memcpy(&f, &b, 4); return f; }
static inline uint64_t f64_bits(double f) { uint64_t b; memcpy(&b, &f, 8); return b; }
static inline double bits_f64(uint64_t b) { double f; memcpy(&f, &b, 8); return f; }

// shift count in [INT_MIN, 63]. Consumes 2 words.
static inline int64_t dec_shift(Dec& d)
{
  int kind = (int)d.range(0, 9); uint64_t u = d.u64();
  if (kind <= 5) return (int64_t)(u % 64);
  if (kind <= 7) { static const int64_t s[] = { -1, -2, -63, -64, -65, INT32_MIN, INT32_MIN + 1, 0, 1, 15, 16, 17, 47, 48, 62, 63 }; return s[u % 16]; }
  return -(int64_t)(u % 2147483648ull) - 1;
}
// 32-bit degrees. Consumes 2 words.
static inline int64_t dec_deg(Dec& d)
{
  int kind = (int)d.range(0, 9); uint64_t u = d.u64();
  if (kind <= 2) return (int64_t)(u % 721) - 360;
  if (kind <= 4) return (int64_t)(u % 200001) - 100000;
  if (kind <= 5) { static const int64_t s[] = { INT32_MIN, INT32_MIN + 1, INT32_MAX, INT32_MAX - 1, -1, 0, 360, 361, -360, -361, 359, 720, -720, 65535, 65536, -65536 }; return s[u % 16]; }
  if (kind <= 7) return (int64_t)(int32_t)(uint32_t)u;
  int len = 1 + (int)((u >> 58) % 31); int64_t v = (int64_t)((u & (((uint64_t)1 << len) - 1)) | ((uint64_t)1 << (len - 1))); return (u >> 57) & 1 ? -v : v;
}
