// Mapping of a property clause's generated arguments onto one inventory entry, so that the
// constant-evaluation engine (E4) can be driven by the property's own targeted generator
// (product-targeted pairs, planted windows, type limits ...) instead of the generic one.
#include "registry.hpp"
#include "meta.hpp"
static int nm(const std::string& s) { return entry_id(s); }
bool ce_map(const std::string& clause, const Args& a, int& id, int64_t& x, int64_t& y, int64_t& z)
{
  x = y = z = 0; id = -1;
  static const char* op4[4] = { "add", "sub", "mul", "div" };
  if (clause == "C01.addsub" && a.size() == 3) { static const char* n[6] = { "add", "sub", "addeq", "subeq", "fadd", "fsub" }; id = nm(n[a[0] % 6]); x = a[1]; y = a[2]; }
  else if (clause == "C02.mulff" && a.size() == 3) { static const char* n[3] = { "mul", "muleq", "fmul" }; id = nm(n[a[0] % 3]); x = a[1]; y = a[2]; }
  else if (clause == "C03.divff" && a.size() == 3) { static const char* n[3] = { "div", "diveq", "fdiv" }; id = nm(n[a[0] % 3]); x = a[1]; y = a[2]; }
  else if (clause == "C02.mulint" && a.size() == 4) { static const char* n[3] = { "mul_r_", "mul_l_", "muleq_" }; id = nm(std::string(n[a[0] % 3]) + ITYPES[a[1] % NITYPES].tok); x = a[2]; y = a[3]; }
  else if (clause == "C03.divint" && a.size() == 4) { static const char* n[2] = { "div_r_", "diveq_" }; id = nm(std::string(n[a[0] % 2]) + ITYPES[a[1] % NITYPES].tok); x = a[2]; y = a[3]; }
  else if (clause == "C16.int" && a.size() == 5) { int op = (int)(a[0] % 4), form = (int)(a[1] % 3); id = nm(form == 2 ? std::string(op4[op]) + "eq_" + ITYPES[a[2] % NITYPES].tok : std::string(op4[op]) + (form == 0 ? "_r_" : "_l_") + ITYPES[a[2] % NITYPES].tok); x = a[3]; y = a[4]; }
  else if (clause == "C18.shift" && a.size() == 3) { id = a[0] ? E_shl : E_shr; x = a[1]; y = a[2]; }
  else if (clause == "C15.floorceil" && a.size() == 1) { id = (a[0] & 0x10000) ? E_floor : E_ceil; x = a[0]; }
  else if (clause == "C14.hypot" && a.size() == 2) { id = E_hypot; x = a[0]; y = a[1]; }
  else if (clause == "C11.atan2" && a.size() == 2) { id = E_atan2; x = a[0]; y = a[1]; }
  else if (clause == "C13.sqrtrc" && a.size() == 1) { id = E_sqrt_abacus; x = a[0]; }
  else if (clause == "C04.toint" && a.size() == 3) { static const char* n[3] = { "to_", "f2i_", "f2a_" }; id = nm(std::string(n[a[0] % 3]) + ITYPES[a[1] % NITYPES].tok); x = a[2]; }
  else if (clause == "C04.fromint" && a.size() == 3 && a[0] <= 2) { static const char* n[3] = { "from_", "mk_", "i2f_" }; id = nm(std::string(n[a[0] % 3]) + ITYPES[a[1] % NITYPES].tok); x = a[2]; }
  else if (clause == "C12.inrc" && a.size() == 1) { id = (a[0] & 1) ? E_asin : E_acos; x = a[0]; }
  else if (clause == "C10.rel" && a.size() == 3) { id = E_tan; x = a[1]; }
  else if (clause == "C09.period" && a.size() == 3) { id = a[0] ? E_cos : E_sin; x = a[1]; }
  return id >= 0;
}
