// Deterministic boundary lattices: every pair (or value x count) drawn from a fixed set of
// "structural" raw values - all powers of two with small offsets, multiples of 3 and 5 of them, the
// limit band, halves and thirds of the limit, small integers, library constants. They complement
// the random generators: a relation between two operands that both sit on structural values
// (e.g. 2^a * 2^b, MAXF/2 + MAXF/2, 2^47 / 3) is covered by construction, on every run.
#include "registry.hpp"
#include "model.hpp"

static std::vector<int64_t> grid_values(int maxbits, bool dense)
{
  std::vector<int64_t> v; auto add = [&](i128 x) { i128 lim = maxbits >= 63 ? (i128)MAXF : (((i128)1 << maxbits) - 1); if (x >= -lim && x <= lim) v.push_back((int64_t)x); };
  for (int64_t s = 0; s <= (dense ? 17 : 5); ++s) { add(s); add(-s); }
  for (int k = 1; k <= 62 && k <= maxbits; ++k) for (int dl = (dense ? -2 : -1); dl <= (dense ? 2 : 1); ++dl) { i128 p = ((i128)1 << k) + dl; add(p); add(-p); if (dense || k % 4 == 0) { add(3 * p); add(-3 * p); add(5 * ((i128)1 << k) + dl); add(-(5 * ((i128)1 << k) + dl)); } }
  for (int dl = 0; dl <= (dense ? 4 : 2); ++dl) { add((i128)MAXF - dl); add(-(i128)MAXF + dl); add((i128)MAXF / 2 + dl - 2); add(-((i128)MAXF / 2 + dl - 2)); add((i128)MAXF / 3 + dl - 2); add(-((i128)MAXF / 3 + dl - 2)); }
  for (int64_t c : { g_dc.phi, g_dc.pidiv2, g_dc.pidiv4, (int64_t)65536 * 360, (int64_t)39322, (int64_t)28672, (int64_t)159744, (int64_t)46341, (int64_t)3037000499ll, (int64_t)3037000500ll, (int64_t)759250124ll, (int64_t)1518500249ll, (int64_t)55027, (int64_t)38852, (int64_t)2147483647ll * 65536, (int64_t)16384 * 65536 }) { add(c); add(-c); add(c + 1); add(c - 1); }
  std::sort(v.begin(), v.end()); v.erase(std::unique(v.begin(), v.end()), v.end());
  return v;
}

struct GridSpec { const char* clause; int nops; int maxbits; int argpos; };   // args = [op, a, b] (argpos 1) or [a, b] (argpos 0)
template<int NOPS, int MAXBITS, int ARGPOS> static SweepInfo grid_pairs(Ctx& ctx, const Clause& cl)
{
  SweepInfo si; bool dense = ctx.tier == "thorough"; std::vector<int64_t> g = grid_values(MAXBITS, dense);
  si.exhaustive = true; si.note = strf("all ordered pairs of %zu structural raw values x %d operator forms", g.size(), NOPS);
  uint64_t idx = 0;
  for (size_t i = 0; i < g.size(); ++i) { if (!mine(ctx, ++idx)) continue;
    for (size_t j = 0; j < g.size(); ++j) for (int op = 0; op < NOPS; ++op) { if (ARGPOS) ctx.evaluate(cl, { op, g[i], g[j] }); else ctx.evaluate(cl, { g[i], g[j] }); } }
  return si;
}
// the check functions live in the property files; they are looked up by clause id at registration time
static CheckFn find_check(const char* id) { for (const Clause& c : registry()) if (!strcmp(c.id, id)) return c.check; fprintf(stderr, "harness: grid: no clause %s\n", id); exit(2); }

struct GridReg {
  GridReg() {
    static const char* D = "all ordered pairs of a fixed set of structural raw values (0, small integers, 2^k+-d, 3*2^k, 5*2^k, the limit band, MAXF/2, MAXF/3, library constants and thresholds; about 300 values quick / 1500 thorough) through the oracle of the named clause; exhaustive over the lattice on every run; non-trivial rule of the named clause; distinct by construction";
    registry().push_back({ "C01.grid", "C01", "sweep", D, find_check("C01.addsub"), 0, nullptr, grid_pairs<6, 63, 1> });
    registry().push_back({ "C02.grid", "C02", "sweep", D, find_check("C02.mulff"), 0, nullptr, grid_pairs<3, 63, 1> });
    registry().push_back({ "C03.grid", "C03", "sweep", D, find_check("C03.divff"), 0, nullptr, grid_pairs<3, 63, 1> });
    registry().push_back({ "C06.grid", "C06", "sweep", D, find_check("C06.cmp"), 0, nullptr, grid_pairs<1, 63, 0> });
    registry().push_back({ "C11.grid", "C11", "sweep", D, find_check("C11.atan2"), 0, nullptr, grid_pairs<1, 46, 0> });
    registry().push_back({ "C14.grid", "C14", "sweep", D, find_check("C14.hypot"), 0, nullptr, grid_pairs<1, 46, 0> });
    registry().push_back({ "C18.gridand", "C18", "sweep", D, find_check("C18.and"), 0, nullptr, grid_pairs<1, 63, 0> });
  }
};
// registered after the property files' static Reg objects: props_grid.cc sorts last in the link order
// only by accident, so registration is done lazily from main() instead (see grid_register()).
void grid_register() { static GridReg r; }

// structural values x every shift count
static SweepInfo c18_grid_shift(Ctx& ctx, const Clause& cl)
{
  SweepInfo si; std::vector<int64_t> g = grid_values(63, ctx.tier == "thorough"); si.exhaustive = true; si.note = strf("%zu structural raw values x every count in [-3, 63] plus INT_MIN, INT_MIN+1, -64, -65 x {>>, <<}", g.size());
  uint64_t idx = 0; std::vector<int64_t> rs; for (int64_t r = -3; r <= 63; ++r) rs.push_back(r); for (int64_t r : { (int64_t)INT32_MIN, (int64_t)INT32_MIN + 1, (int64_t)-64, (int64_t)-65 }) rs.push_back(r);
  for (int64_t x : g) { if (!mine(ctx, ++idx)) continue; for (int64_t r : rs) for (int op = 0; op < 2; ++op) ctx.evaluate(cl, { op, x, r }); }
  return si;
}
void grid_register2() { static bool done = false; if (done) return; done = true;
  registry().push_back({ "C18.gridshift", "C18", "sweep", "structural raw values (see C01.grid) x every shift count in [-3, 63] and extreme negative counts x {>>, <<}; oracle of C18.shift; exhaustive over the lattice on every run", find_check("C18.shift"), 0, nullptr, c18_grid_shift }); }
