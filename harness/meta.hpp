#pragma once
#include "registry.hpp"
const std::vector<std::vector<std::string>>& entry_args();
int c08_maxbits(int id);
bool c08_arg_ok(int id, size_t i, const std::string& tok, int64_t v);
Args c08_decode(Ctx&, Dec& d);
int64_t entry_key(int id);
int entry_from_key(int64_t k);
bool ce_map(const std::string& clause, const Args& a, int& id, int64_t& x, int64_t& y, int64_t& z);
