// C19 lookup tables and the functions reading them; C20 degree-based helpers.
#include "registry.hpp"
#include "model.hpp"

static const long double ULP = 1.0L / 65536.0L;
static const long double SLACK = 1e-9L * ULP;
static inline long double rv(int64_t raw) { return (long double)raw / 65536.0L; }
static const long double PI_L = 3.141592653589793238462643383279502884L;
static int typed_entry(const char* prefix, const char* tok) { static std::unordered_map<std::string, int> cache; std::string k = std::string(prefix) + tok; auto it = cache.find(k); if (it != cache.end()) return it->second; int id = entry_id_or_die(k); cache[k] = id; return id; }
static long double sin_deg(int64_t d) { int64_t m = ((d % 360) + 360) % 360; static long double tab[360]; static bool init = false; if (!init) { for (int i = 0; i < 360; ++i) tab[i] = sinl((long double)i * PI_L / 180.0L); tab[0] = 0; tab[180] = 0; tab[90] = 1; tab[270] = -1; init = true; } return tab[m]; }
static long double cos_deg(int64_t d) { return sin_deg(d + 90); }

// ================================================================ C19 tables: args = table(0 sin,1 cos,2 tan,3 sqrt), index
static void c19_tab_check(Ctx& ctx, const Args& a)
{
  if (a.size() != 2 || a[0] < 0 || a[0] > 3 || a[1] < 0 || a[1] > (a[0] <= 1 ? 360 : 255)) { ctx.skip(); return; }
  int tb = (int)a[0]; int64_t i = a[1]; ctx.nontriv();
  ctx.cls(tb == 0 ? "sin_angle_tab" : tb == 1 ? "cos_angle_tab" : tb == 2 ? "tan_tab" : "square_root_tab");
  for (size_t ci = 0; ci < ctx.cuts.size(); ++ci) {
    int64_t v;
    if (tb <= 1) { if (!ctx.call(ci, tb == 0 ? E_sin_angle_tab : E_cos_angle_tab, i, v)) continue; long double t = tb == 0 ? sin_deg(i) : cos_deg(i); long double e = fabsl(rv(v) - t) / ULP; ctx.worst(tb == 0 ? "sin_tab_err_ulp" : "cos_tab_err_ulp", e); if (e > 2.0L + 1e-9L) ctx.fail(ci, strf("%s table entry %" PRId64 " = %" PRId64 " is %.3Lf ulp from the true value", tb == 0 ? "sine" : "cosine", i, v, e)); }
    else if (tb == 2) { if (i == 128) continue; if (!ctx.call(ci, E_tan_tab, i, v)) continue; long double t = tanl((long double)i * PI_L / 256.0L); long double e = fabsl(rv(v) - t) / (ULP * (1 + t * t)); ctx.worst("tan_tab_err_over_(1+tan^2)ulp", e); if (e > 2.0L + 1e-9L) ctx.fail(ci, strf("tangent table entry %" PRId64 " = %" PRId64 " is %.3Lf ulp*(1+tan^2) from tan(i*pi/256) = %.6Lf", i, v, e, t)); }
    else { if (!ctx.call(ci, E_square_root_tab, i, v)) continue; long double t = 65536.0L * sqrtl((long double)i / 256.0L + 31.0L / 262144.0L); long double e = fabsl((long double)v - t); ctx.worst("sqrt_tab_err_units", e); if (e > 1.0L + 1e-9L) ctx.fail(ci, strf("square-root table entry %" PRId64 " = %" PRId64 " is %.3Lf units from 65536*sqrt(i/256 + 31/2^18) = %.3Lf", i, v, e, t)); }
  }
}
static SweepInfo c19_tab_sweep(Ctx& ctx, const Clause& cl)
{
  SweepInfo si; si.exhaustive = true; si.note = "all 361 + 361 + 256 + 256 table entries"; uint64_t idx = 0;
  for (int tb = 0; tb < 4; ++tb) for (int64_t i = 0; i <= (tb <= 1 ? 360 : 255); ++i) if (mine(ctx, ++idx)) ctx.evaluate(cl, { tb, i });
  return si;
}
static Reg r_c19_tab({ "C19.tables", "C19", "sweep",
  "every entry of the four lookup tables read through the library's accessors (361 sine, 361 cosine, 256 tangent, 256 square-root entries), every run; oracle: sine/cosine within 2 ulp of sin/cos(i degrees); tangent (i != 128) within 2 ulp*(1+tan^2) of tan(i*pi/256); square root within 1 unit of 65536*sqrt(i/256 + 31/2^18); every entry is non-trivial and distinct",
  c19_tab_check, 0, nullptr, c19_tab_sweep });

// ================================================================ C19 angle functions: args = fn(0 sin,1 cos), d
static void c19_angle_check(Ctx& ctx, const Args& a)
{
  if (a.size() != 2 || a[0] < 0 || a[0] > 1 || a[1] < INT32_MIN || a[1] > INT32_MAX) { ctx.skip(); return; }
  int64_t d = a[1]; bool iscos = a[0] == 1; long double t = iscos ? cos_deg(d) : sin_deg(d);
  if (d < 0) { ctx.cls("negative-degrees"); ctx.nontriv(); if (d % 360 != 0) ctx.cls("negative-not-multiple-of-360"); } else if (d > 360) { ctx.cls("d>360"); ctx.nontriv(); } else ctx.cls("[0,360]");
  for (size_t ci = 0; ci < ctx.cuts.size(); ++ci) {
    int64_t v; if (!ctx.call(ci, iscos ? E_cos_angle_aprox : E_sin_angle_aprox, d, v)) continue;
    long double e = fabsl(rv(v) - t) / ULP; ctx.worst("angle_aprox_err_ulp", e);
    if (e > 2.0L + 1e-9L) ctx.fail(ci, strf("%s_angle_aprox(%" PRId64 ") = %" PRId64 " is %.3Lf ulp from the true value %.6Lf", iscos ? "cos" : "sin", d, v, e, t));
  }
}
static Args c19_angle_decode(Ctx&, Dec& d) { int fn = (int)d.range(0, 1); return { fn, dec_deg(d) }; }
static Reg r_c19_angle({ "C19.angle", "C19", "rc",
  "32-bit degrees d (in [-360,360], in [-100000,100000], type limits, uniform 32-bit, bit-length uniform with sign) x {sin_angle_aprox, cos_angle_aprox}; oracle: within 2 ulp of sin/cos of d degrees (reference: 360 precomputed long-double values); a call that does not return (out-of-bounds table read) is a violation; non-trivial = negative d or d > 360",
  c19_angle_check, 6, c19_angle_decode, nullptr });
static SweepInfo c19_angle_sweep(Ctx& ctx, const Clause& cl)
{
  SweepInfo si; bool thorough = ctx.tier == "thorough";
  int64_t lo = thorough ? (int64_t)INT32_MIN : -4000000, hi = thorough ? (int64_t)INT32_MAX : 4000000;
  si.exhaustive = thorough; si.note = thorough ? "all 2^32 int32 degrees for sin_angle_aprox and cos_angle_aprox" : "all degrees in [-4000000, 4000000]";
  uint64_t total = (uint64_t)(hi - lo + 1), per = (total + ctx.nworkers - 1) / ctx.nworkers; int64_t s = lo + (int64_t)(per * ctx.worker), e = std::min<int64_t>(hi, s + (int64_t)per - 1);
  for (int64_t d = s; d <= e; ++d) {
    bool bad = false;
    for (int fn = 0; fn < 2 && !bad; ++fn) { long double t = fn ? cos_deg(d) : sin_deg(d);
      for (size_t ci = 0; ci < ctx.cuts.size(); ++ci) { CallResult r = cut_call(ctx.cuts[ci], fn ? E_cos_angle_aprox : E_sin_angle_aprox, d); ++ctx.executions; if (r.trap || fabsl(rv(r.v) - t) > 2.0L * ULP + SLACK) { bad = true; break; } } }
    if (bad || (d % 9999991) == 0 || (d >= -3 && d <= 3)) { ctx.evaluate(cl, { 0, d }); ctx.evaluate(cl, { 1, d }); }
    else { ctx.bulk_evals += 2; if (d < 0 || d > 360) ctx.bulk_nontrivial += 2; }
    if (ctx.fail_last.set && ctx.failing_evals > 50) break;
  }
  return si;
}
static Reg r_c19_angle_sweep({ "C19.anglesweep", "C19", "sweep",
  "enumeration of int32 degrees for sin_angle_aprox / cos_angle_aprox: [-4000000, 4000000] in the quick tier, all 2^32 values in the thorough tier; oracle and non-trivial rule as C19.angle (distinct by construction)",
  c19_angle_check, 0, nullptr, c19_angle_sweep });

// ================================================================ C19 sqrt_aprox / atan_index_aprox
static void c19_sqrt_check(Ctx& ctx, const Args& a)
{
  if (a.size() != 1 || !m_finite128(a[0]) || a[0] >= ((int64_t)1 << 37)) { ctx.skip(); return; }
  int64_t x = a[0];
  if (x < 0) { ctx.cls("negative"); ctx.nontriv(); } else if (x == 0) { ctx.cls("zero"); ctx.nontriv(); }
  else { int len = bitlen64((uint64_t)x); uint64_t low = (uint64_t)x & (((uint64_t)1 << (len - 1)) - 1); if (low < 4 || low + 4 >= ((uint64_t)1 << (len - 1))) { ctx.cls("binade-edge"); ctx.nontriv(); } else ctx.cls("interior"); if (len > 20) ctx.nontriv(); }
  for (size_t ci = 0; ci < ctx.cuts.size(); ++ci) {
    int64_t v; if (!ctx.call(ci, E_sqrt_aprox, x, v)) continue;
    if (x < 0) { if (!m_isnan(v)) ctx.fail(ci, strf("sqrt_aprox(%" PRId64 ") = %" PRId64 ", expected NaN", x, v)); continue; }
    if (x == 0) { if (v != 0) ctx.fail(ci, strf("sqrt_aprox(0) = %" PRId64, v)); continue; }
    long double t = sqrtl(rv(x)), rel = fabsl(rv(v) - t) / t; ctx.worst("sqrt_aprox_rel_err", rel);
    if (m_isnan(v) || rel > 0.02L * (1 + 1e-9L)) ctx.fail(ci, strf("sqrt_aprox(%" PRId64 ") = %" PRId64 ": relative error %.4Lf exceeds 2%% (true %.6Lf)", x, v, rel, t));
  }
}
static SweepInfo c19_sqrt_sweep(Ctx& ctx, const Clause& cl)
{
  SweepInfo si; bool thorough = ctx.tier == "thorough"; int exbits = thorough ? 20 : 18; uint64_t per = thorough ? 1000000 : 40000;
  si.note = strf("exhaustive on raw [0, 2^%d); lattice of %llu values per bit length %d..37; binade edges", exbits, (unsigned long long)per, exbits + 1);
  uint64_t idx = 0;
  for (int64_t x = 0; x < ((int64_t)1 << exbits); ++x) if (mine(ctx, ++idx)) ctx.evaluate(cl, { x });
  for (int len = exbits + 1; len <= 37; ++len) {
    uint64_t base = (uint64_t)1 << (len - 1);
    for (int64_t dl = -4; dl <= 4; ++dl) if (mine(ctx, ++idx) && (int64_t)base + dl < ((int64_t)1 << 37)) ctx.evaluate(cl, { (int64_t)base + dl });
    uint64_t span = base, cnt = std::min(per, span), step = (span / cnt) | 1, off = mix64(ctx.seed * 31 + len) % span;
    for (uint64_t j = 0; j < cnt; ++j) if (mine(ctx, ++idx)) ctx.evaluate(cl, { (int64_t)(base + (off + j * step) % span) });
  }
  for (int64_t x : { (int64_t)-1, (int64_t)-65536, -MAXF, (int64_t)-(1ll << 40) }) if (mine(ctx, ++idx)) ctx.evaluate(cl, { x });
  return si;
}
static Reg r_c19_sqrt({ "C19.sqrt_aprox", "C19", "sweep",
  "raw x in [0, 2^37) (2^-16 <= x < 2^21): exhaustive below 2^18 quick / 2^20 thorough, seed-offset lattice and +-4 binade edges per bit length up to 37, plus 0 and negative values; oracle: relative error <= 2%, sqrt_aprox(0) == 0, NaN below 0; non-trivial = binade edge, raw >= 2^20, zero or negative; distinct by construction",
  c19_sqrt_check, 0, nullptr, c19_sqrt_sweep });

static void c19_atani_check(Ctx& ctx, const Args& a)
{
  if (a.size() != 1 || iabs128(a[0]) >= ((i128)1 << 47)) { ctx.skip(); return; }
  int64_t x = a[0]; if (iabs128(x) >= ((i128)1 << 21)) { ctx.cls("|raw|>=2^21"); ctx.nontriv(); } else ctx.cls("|raw|<2^21"); if (x < 0) ctx.cls("negative");
  long double t = atanl(rv(x)) * 128.0L / PI_L;
  for (size_t ci = 0; ci < ctx.cuts.size(); ++ci) {
    int64_t v; if (!ctx.call(ci, E_atan_index_aprox, x, v)) continue;
    long double e = fabsl(rv(v) - t); ctx.worst("atan_index_err", e);
    if (m_isnan(v) || e > 1.25L + 1e-9L) ctx.fail(ci, strf("atan_index_aprox(%" PRId64 ") = %" PRId64 " (%.4Lf) is %.4Lf from atan(x)*128/pi = %.4Lf", x, v, rv(v), e, t));
    // table-entry neighbourhood: exercised when the decision between two entries is close
  }
}
static SweepInfo c19_atani_sweep(Ctx& ctx, const Clause& cl)
{
  SweepInfo si; bool thorough = ctx.tier == "thorough"; int exbits = thorough ? 21 : 19; uint64_t per = thorough ? 500000 : 30000;
  si.note = strf("exhaustive on |raw| < 2^%d; lattice of %llu values per bit length %d..47 with both signs; +-16 raw around every tangent-table entry", exbits, (unsigned long long)per, exbits + 1);
  uint64_t idx = 0;
  for (int64_t x = -((int64_t)1 << exbits) + 1; x < ((int64_t)1 << exbits); ++x) if (mine(ctx, ++idx)) ctx.evaluate(cl, { x });
  for (int len = exbits + 1; len <= 47; ++len) {
    uint64_t base = (uint64_t)1 << (len - 1), span = base, cnt = std::min(per, span), step = (span / cnt) | 1, off = mix64(ctx.seed * 17 + len) % span;
    for (uint64_t j = 0; j < cnt; ++j) if (mine(ctx, ++idx)) { int64_t v = (int64_t)(base + (off + j * step) % span); ctx.evaluate(cl, { (j & 1) ? v : -v }); }
  }
  for (int i = 0; i < 256; ++i) { if (i == 128) continue; CallResult r = cut_call(ctx.cuts[0], E_tan_tab, i); if (r.trap) continue; for (int64_t dl = -16; dl <= 16; ++dl) { int64_t x = r.v + dl; if (iabs128(x) < ((i128)1 << 47) && mine(ctx, ++idx)) { ctx.evaluate(cl, { x }); ++ctx.extra["around-table-entries"]; } } }
  return si;
}
static Reg r_c19_atani({ "C19.atan_index", "C19", "sweep",
  "raw x with |x| < 2^47: exhaustive on |raw| < 2^19 quick / 2^21 thorough, seed-offset lattice per bit length up to 47 with both signs, and +-16 raw around every tangent-table entry (where the nearest-entry decision flips); oracle: |result - atanl(x)*128/pi| <= 1.25, never NaN; non-trivial = |raw| >= 2^21; distinct by construction",
  c19_atani_check, 0, nullptr, c19_atani_sweep });

// ================================================================ C20 angle_to_radians: args = type, n
static void c20_a2r_check(Ctx& ctx, const Args& a)
{
  if (a.size() != 2 || a[0] < 0 || a[0] >= NITYPES) { ctx.skip(); return; }
  const IType& t = ITYPES[a[0]]; i128 n = tval(t, a[1]); bool in = n >= 0 && n <= 360; int id = typed_entry("a2r_", t.tok);
  ctx.cls(t.tok);
  if (!in) { ctx.cls("outside[0,360]->NaN"); ctx.nontriv(); } else if (t.bits == 8 && n > 104) { ctx.cls("8-bit-type-d>104"); ctx.nontriv(); } else if (n >= 358 || n <= 1) { ctx.cls("interval-edge"); ctx.nontriv(); } else ctx.cls("inside");
  for (size_t ci = 0; ci < ctx.cuts.size(); ++ci) {
    int64_t v; if (!ctx.call(ci, id, a[1], v)) continue;
    if (!in) { if (!m_isnan(v)) ctx.fail(ci, strf("angle_to_radians<%s>(%s) = %" PRId64 ", expected NaN outside [0, 360]", t.tok, i128s(n).c_str(), v)); continue; }
    long double tr = (long double)(int64_t)n * PI_L / 180.0L, e = fabsl(rv(v) - tr) / ULP; ctx.worst("angle_to_radians_err_ulp", e);
    if (m_isnan(v) || e > 2.0L + 1e-9L) ctx.fail(ci, strf("angle_to_radians<%s>(%s) = %" PRId64 " is %s from d*pi/180 = %.6Lf", t.tok, i128s(n).c_str(), v, m_isnan(v) ? "NaN, far" : strf("%.3Lf ulp", e).c_str(), tr));
  }
}
static Args c20_a2r_decode(Ctx&, Dec& d)
{
  int ti = (int)d.range(0, NITYPES - 1); int64_t n = dec_int(d, ITYPES[ti]); int mode = (int)d.range(0, 2); uint64_t u = d.u64();
  if (mode == 0) n = (int64_t)(u % 365) - 2; else if (mode == 1) n = (int64_t)(u % 1000) - 300;
  return { ti, n };
}
static Reg r_c20_a2r({ "C20.a2r", "C20", "rc",
  "angle_to_radians<T>(d) for every integral type: d in [-2, 362] (1/3), [-300, 699] (1/3), the type's classes and limits (1/3); oracle: d in [0,360] -> within 2 ulp of d*pi/180, not NaN; otherwise NaN; non-trivial = outside [0,360], 8-bit types with d > 104, interval edges",
  c20_a2r_check, 10, c20_a2r_decode, nullptr });
static SweepInfo c20_a2r_sweep(Ctx& ctx, const Clause& cl)
{
  SweepInfo si; bool thorough = ctx.tier == "thorough"; uint64_t stride32 = thorough ? 1 : 127, phase = thorough ? 0 : ctx.seed % stride32;
  si.exhaustive = thorough; si.note = thorough ? "every value of int8/uint8/int16/uint16/int32/uint32" : strf("every value of the 8/16-bit types; int32/uint32 every %llu-th (phase %llu) plus [-1000, 1000]", (unsigned long long)stride32, (unsigned long long)phase);
  uint64_t idx = 0;
  for (int ti = 0; ti < 6; ++ti) {
    const IType& t = ITYPES[ti]; int id = typed_entry("a2r_", t.tok); i128 lo = tmin(t), hi = tmax(t);
    auto one = [&](i128 n) {
      if (!mine(ctx, ++idx)) return; int64_t pat = (int64_t)n; bool in = n >= 0 && n <= 360;
      if (in || t.bits < 32) { ctx.evaluate(cl, { ti, pat }); return; }
      bool bad = false; for (size_t ci = 0; ci < ctx.cuts.size(); ++ci) { CallResult r = cut_call(ctx.cuts[ci], id, pat); ++ctx.executions; if (r.trap || !m_isnan(r.v)) { bad = true; break; } }
      if (bad || (idx % 3000017) < (uint64_t)ctx.nworkers) ctx.evaluate(cl, { ti, pat }); else { ++ctx.bulk_evals; ++ctx.bulk_nontrivial; }
    };
    if (t.bits < 32) for (i128 n = lo; n <= hi; ++n) one(n);
    else { for (i128 n = lo + (i128)phase; n <= hi; n += stride32) one(n); if (!thorough) for (i128 n = -1000; n <= 1000; ++n) if (n >= lo) one(n); }
  }
  return si;
}
static Reg r_c20_a2r_sweep({ "C20.a2rsweep", "C20", "sweep",
  "enumeration of angle_to_radians<T> over every value of int8, uint8, int16, uint16 (every run) and int32/uint32 (strided quick, complete thorough); oracle and non-trivial rule as C20.a2r (distinct by construction)",
  c20_a2r_check, 0, nullptr, c20_a2r_sweep });

// ================================================================ C20 *_angle: args = fn(0 sin,1 cos,2 tan), d in [-360, 360]
static void c20_angle_check(Ctx& ctx, const Args& a)
{
  if (a.size() != 2 || a[0] < 0 || a[0] > 2 || a[1] < -360 || a[1] > 360) { ctx.skip(); return; }
  int fn = (int)a[0]; int64_t d = a[1]; static const char* pre[3] = { "sina_", "cosa_", "tana_" };
  int64_t m = ((d % 360) + 360) % 360;
  if (d > 127 || d < -128) { ctx.cls("beyond-8-bit"); ctx.nontriv(); } if (d < 0) { ctx.cls("negative"); ctx.nontriv(); }
  if ((m > 135 && m < 180) || (m > 315 && m < 360)) { ctx.cls("(135,180)u(315,360)"); ctx.nontriv(); }
  ctx.cls(fn == 0 ? "sin_angle" : fn == 1 ? "cos_angle" : "tan_angle");
  long double t, bound;
  if (fn <= 1) { t = fn == 0 ? sin_deg(d) : cos_deg(d); long double r = fabsl(asinl(t)), r2 = r * r, r4 = r2 * r2; bound = 7.0L * ULP + r4 * r4 * r / 362880.0L + SLACK; }
  else { if (m == 90 || m == 270) { ctx.cls("tan-pole(skipped)"); return; } t = sin_deg(d) / cos_deg(d); bound = 5.0L * ULP * (1 + t * t) * (1 + 1e-12L) + SLACK; }
  for (size_t ci = 0; ci < ctx.cuts.size(); ++ci) {
    int64_t ref = 0; bool have = false;
    auto one = [&](int id, int64_t arg, const char* tn) {
      int64_t v; if (!ctx.call(ci, id, arg, v)) return;
      long double e = fabsl(rv(v) - t); ctx.worst(fn <= 1 ? "sincos_angle_err_over_bound" : "tan_angle_err_over_bound", e / bound);
      if (m_isnan(v) || e > bound) ctx.fail(ci, strf("%s<%s>(%" PRId64 ") = %" PRId64 ": error %.3Lf ulp exceeds the bound %.3Lf ulp (true %.6Lf)", g_sigs[id].name, tn, d, v, e / ULP, bound / ULP, t));
      if (have && v != ref) ctx.fail(ci, strf("%s(%" PRId64 ") = %" PRId64 " differs from the same angle carried by another argument type (%" PRId64 ")", g_sigs[id].name, d, v, ref));
      if (!have) { ref = v; have = true; }
    };
    for (int ti = 0; ti < NITYPES; ++ti) { const IType& it = ITYPES[ti]; if ((i128)d < tmin(it) || (i128)d > tmax(it)) continue; one(typed_entry(pre[fn], it.tok), d, it.tok); }
    one(typed_entry(pre[fn], "f32"), (int64_t)f32_bits((float)d), "float");
    one(typed_entry(pre[fn], "x"), d * 65536, "fixed_t");
  }
}
static SweepInfo c20_angle_sweep(Ctx& ctx, const Clause& cl)
{
  SweepInfo si; si.exhaustive = true; si.note = "every integer d in [-360, 360] x {sin_angle, cos_angle, tan_angle} x every argument type able to carry d"; uint64_t idx = 0;
  for (int fn = 0; fn < 3; ++fn) for (int64_t d = -360; d <= 360; ++d) if (mine(ctx, ++idx)) ctx.evaluate(cl, { fn, d });
  return si;
}
static Reg r_c20_angle({ "C20.angle", "C20", "sweep",
  "every integer d in [-360, 360] x {sin_angle, cos_angle, tan_angle} x every argument type able to carry d (int8..int64, uint8..uint64 for d >= 0, float, fixed_t), every run; oracle: sin/cos within 7 ulp + r^9/9! of sin/cos(d degrees); tan within 5 ulp*(1+tan^2) (d = 90 mod 180 skipped); identical results across argument types; non-trivial = |d| beyond an 8-bit type, negative d, d mod 360 in (135,180) u (315,360); distinct by construction",
  c20_angle_check, 0, nullptr, c20_angle_sweep });

// ================================================================ C19: call context and argument type of the table functions
static void c19_init_check(Ctx& ctx, const Args& a)
{
  if (a.size() != 1 || a[0] < 0 || a[0] > 7) { ctx.skip(); return; }
  ctx.nontriv(); ctx.cls("static-initialiser-call");
  for (size_t ci = 0; ci < ctx.cuts.size(); ++ci) { int64_t early, now; if (ctx.call(ci, E_init_probe, a[0], early) && ctx.call(ci, E_init_probe_now, a[0], now) && early != now) ctx.fail(ci, strf("table function probe %" PRId64 " returned %" PRId64 " when called from a static initialiser of another translation unit but %" PRId64 " when called later", a[0], early, now)); }
}
static SweepInfo c19_init_sweep(Ctx& ctx, const Clause& cl) { SweepInfo si; si.exhaustive = true; si.note = "8 probe calls made from a static initialiser of the wrapper translation unit (linked before fixed_math.cc)"; if (ctx.worker == 0) for (int64_t i = 0; i < 8; ++i) ctx.evaluate(cl, { i }); return si; }
static Reg r_c19_init({ "C19.staticinit", "C19", "sweep", "the compiled table functions called from a static initialiser of a translation unit linked before fixed_math.cc (cos/sin_angle_aprox, sqrt_aprox, atan_index_aprox, tan_tab) must return what they return later: the tables must be constant-initialised", c19_init_check, 0, nullptr, c19_init_sweep });
static void c19_types_check(Ctx& ctx, const Args& a)
{
  static const int ids[6] = { E_sin_angle_aprox_i8, E_cos_angle_aprox_i8, E_sin_angle_aprox_i16, E_cos_angle_aprox_i16, E_sin_angle_aprox_u8, E_cos_angle_aprox_u16 };
  static const int tys[6] = { 0, 0, 2, 2, 1, 3 };
  if (a.size() != 2 || a[0] < 0 || a[0] > 5) { ctx.skip(); return; }
  i128 d = tval(ITYPES[tys[a[0]]], a[1]); bool iscos = a[0] & 1; long double t = iscos ? cos_deg((int64_t)d) : sin_deg((int64_t)d);
  ctx.cls(g_sigs[ids[a[0]]].name); if (d < 0 || d > 360) ctx.nontriv();
  for (size_t ci = 0; ci < ctx.cuts.size(); ++ci) { int64_t v; if (!ctx.call(ci, ids[a[0]], a[1], v)) continue; long double e = fabsl(rv(v) - t) / ULP; if (e > 2.0L + 1e-9L) ctx.fail(ci, strf("%s(%s) = %" PRId64 " is %.3Lf ulp from the true value", g_sigs[ids[a[0]]].name, i128s(d).c_str(), v, e)); }
}
static SweepInfo c19_types_sweep(Ctx& ctx, const Clause& cl) { SweepInfo si; si.exhaustive = true; si.note = "every value of the narrow carrier types"; uint64_t idx = 0; for (int f = 0; f < 6; ++f) { int bits = (f < 2 || f == 4) ? 8 : 16; for (int64_t v = 0; v < ((int64_t)1 << bits); ++v) if (mine(ctx, ++idx)) ctx.evaluate(cl, { f, v }); } return si; }
static Reg r_c19_types({ "C19.angletypes", "C19", "sweep", "sin_angle_aprox / cos_angle_aprox called with int8_t, uint8_t, int16_t, uint16_t arguments (every value of the type): within 2 ulp of sin/cos of that many degrees; non-trivial = negative or > 360", c19_types_check, 0, nullptr, c19_types_sweep });
