// C09 sin/cos, C10 tan, C11 atan/atan2, C12 asin/acos, C13 sqrt, C14 hypot.
// References: glibc long-double libm (x87, 64-bit mantissa) against tolerances >= 2^-18; every
// comparison carries a small slack in favour of passing, so reference error cannot raise an alarm.
#include "registry.hpp"
#include "model.hpp"

static const long double ULP = 1.0L / 65536.0L;
static const long double SLACK = 1e-9L * ULP;
static inline long double rv(int64_t raw) { return (long double)raw / 65536.0L; }
static const long double PI_L = 3.141592653589793238462643383279502884L;

// lattice over one bit-length class: `count` values with exactly `len` significant bits
template<class F> static void lattice(Ctx& ctx, int len, uint64_t count, uint64_t seedmix, F f)
{
  uint64_t base = (uint64_t)1 << (len - 1), span = base;   // values base .. 2*base-1
  if (count >= span) { for (uint64_t v = base; v < base + span; ++v) f(v); return; }
  uint64_t step = (span / count) | 1, off = mix64(seedmix ^ (uint64_t)len) % span;
  for (uint64_t j = 0; j < count; ++j) f(base + (off + j * step) % span);
}

// ================================================================ C09
static void c09_acc_check(Ctx& ctx, const Args& a)
{
  if (a.size() != 2 || a[0] < 0 || a[0] > 1 || iabs128(a[1]) > 411774) { ctx.skip(); return; }
  bool iscos = a[0] == 1; int64_t x = a[1]; long double xr = rv(x);
  long double t = iscos ? cosl(xr) : sinl(xr); long double r = fabsl(asinl(t));
  long double r2 = r * r, r4 = r2 * r2; long double bound = 4.0L * ULP + r4 * r4 * r / 362880.0L + SLACK;
  if (r > 1.2L) { ctx.cls("r>1.2(series-tail-matters)"); ctx.nontriv(); }
  long double ax = fabsl(xr); if (ax > PI_L / 2 && ax < 3 * PI_L / 2) { ctx.cls("fold-region"); ctx.nontriv(); } else if (ax >= 3 * PI_L / 2) { ctx.cls("range-reduced"); ctx.nontriv(); } else ctx.cls("core");
  ctx.cls(iscos ? "cos" : "sin");
  for (size_t ci = 0; ci < ctx.cuts.size(); ++ci) {
    int64_t v; if (!ctx.call(ci, iscos ? E_cos : E_sin, x, v)) continue;
    long double err = fabsl(rv(v) - t); ctx.worst(iscos ? "cos_err_over_bound" : "sin_err_over_bound", err / bound);
    if (err > bound) ctx.fail(ci, strf("%s(%" PRId64 ") = %" PRId64 ": error %.3Lf ulp exceeds 4 ulp + r^9/9! = %.3Lf ulp (r = %.4Lf)", iscos ? "cos" : "sin", x, v, err / ULP, bound / ULP, r));
    if (v > 65536 || v < -65536) ctx.fail(ci, strf("%s(%" PRId64 ") = %" PRId64 " lies outside [-1, 1]", iscos ? "cos" : "sin", x, v));
  }
}
static SweepInfo c09_acc_sweep(Ctx& ctx, const Clause& cl)
{
  SweepInfo si; bool thorough = ctx.tier == "thorough"; int64_t stride = 1, phase = thorough ? 0 : (int64_t)(ctx.seed % stride);
  si.exhaustive = true; si.note = true ? "every raw x in [-411774, 411774] for sin and cos" : strf("every %lld-th raw x in [-411774, 411774] (phase %lld) for sin and cos", (long long)stride, (long long)phase);
  uint64_t idx = 0;
  for (int64_t x = -411774 + phase; x <= 411774; x += stride) { if (!mine(ctx, ++idx)) continue; ctx.evaluate(cl, { 0, x }); ctx.evaluate(cl, { 1, x }); }
  return si;
}
static Reg r_c09_acc({ "C09.acc", "C09", "sweep",
  "every raw x with |x| <= 2*pi (823,549 values, every run) x {sin, cos}; oracle: |lib - sinl(x)| <= 4 ulp + r^9/9! with r = |asinl(sinl x)| (cos alike) and |result| <= 1.0; non-trivial = r > 1.2 or |x| beyond pi/2 (fold or range reduction executed); distinct by construction",
  c09_acc_check, 0, nullptr, c09_acc_sweep });

static void c09_period_check(Ctx& ctx, const Args& a)
{
  if (a.size() != 3 || a[0] < 0 || a[0] > 1) { ctx.skip(); return; }
  const i128 LIM = (i128)1 << 62; int64_t x = a[1], k = a[2]; bool iscos = a[0] == 1; // |value| < 2^46 == |raw| < 2^62
  if (iabs128(x) >= LIM) { ctx.skip(); return; }
  if (k != 0) ctx.nontriv();
  if (k > 4 || k < -4) ctx.cls("|k|>4"); else ctx.cls("|k|<=4");
  ctx.cls(iscos ? "cos" : "sin");
  for (size_t ci = 0; ci < ctx.cuts.size(); ++ci) {
    i128 y = (i128)x + (i128)k * 2 * ctx.cuts[ci].phi;
    if (iabs128(y) >= LIM) { if (ci == 0) { ctx.skip(); return; } continue; }
    if (ci == 0) ctx.cls((iabs128(x) >= ((i128)1 << 46) || iabs128(y) >= ((i128)1 << 46)) ? "raw-beyond-2^46" : "raw-below-2^46");
    int64_t v0, v1; int id = iscos ? E_cos : E_sin;
    if (!ctx.call(ci, id, x, v0) || !ctx.call(ci, id, (int64_t)y, v1)) continue;
    if (v0 > 65536 || v0 < -65536 || v1 > 65536 || v1 < -65536) ctx.fail(ci, strf("%s of %" PRId64 " or %s lies outside [-1, 1]: %" PRId64 ", %" PRId64, iscos ? "cos" : "sin", x, i128s(y).c_str(), v0, v1));
    if (v0 != v1) ctx.fail(ci, strf("%s(%" PRId64 ") = %" PRId64 " but %s(x + %" PRId64 "*2*phi = %s) = %" PRId64, iscos ? "cos" : "sin", x, v0, iscos ? "cos" : "sin", k, i128s(y).c_str(), v1));
  }
}
static Args c09_period_decode(Ctx& ctx, Dec& d)
{
  int fn = (int)d.range(0, 1); int64_t x = dec_raw(d, 62); int mode = (int)d.range(0, 4); uint64_t u = d.u64(); int kb = (int)d.range(1, 43); bool neg = d.flag();
  int64_t T = 2 * ctx.cuts[0].phi; int64_t k;
  if (mode == 1) { // x next to a reduction boundary (-phi/2, 3phi/2 modulo 2phi) with a huge quotient
    uint64_t jm = ((uint64_t)1 << kb) - 1; int64_t j = (int64_t)((u >> 8) & jm); int64_t bnd = (u & 1) ? 3 * ctx.cuts[0].phi / 2 : -(ctx.cuts[0].phi / 2);
    i128 y = (i128)j * T + bnd + (int64_t)((u >> 52) % 129) - 64; if (neg) y = -y; if (iabs128(y) < ((i128)1 << 62)) x = (int64_t)y; }
  if (mode == 0) k = (int64_t)(u % 9) - 4;
  else { uint64_t m = ((uint64_t)1 << kb) - 1; k = (int64_t)((u & m) | ((uint64_t)1 << (kb - 1))); if (neg) k = -k; }
  // keep |x + k*T| < 2^62 raw by construction: clamp k into the admissible interval
  i128 lim = ((i128)1 << 62) - 1; i128 kmax = (lim - x) / T, kmin = -((lim + x) / T);
  if (k > kmax) k = (int64_t)kmax; if (k < kmin) k = (int64_t)kmin;
  return { fn, x, k };
}
static Reg r_c09_period({ "C09.period", "C09", "rc",
  "(x, k) with raw |x| < 2^62 and |x + k*2*phi| < 2^62, i.e. values below 2^46 (phi read from the library build): x bit-length uniform up to 62 bits or (1/5) planted within 64 raw of a reduction boundary j*2phi + {-phi/2, 3phi/2} with j up to 43 bits; k small in [-4,4] (1/5) or bit-length uniform up to 43 bits, clamped into the admissible interval; oracle (metamorphic): sin(x + k*2*phi) == sin(x) and cos alike, bit-for-bit, and both results within [-1, 1]; non-trivial = k != 0",
  c09_period_check, 16, c09_period_decode, nullptr });

// ================================================================ C10
static void c10_acc_check(Ctx& ctx, const Args& a)
{
  if (a.size() != 1 || iabs128(a[0]) > 205887) { ctx.skip(); return; }
  int64_t x = a[0];
  long double xr = rv(x), t = tanl(xr), bound = 2.5L * ULP * (1.0L + t * t) * (1.0L + 1e-12L) + SLACK;
  long double ax = fabsl(xr);
  if (ax > PI_L / 4 && ax < PI_L / 2) { ctx.cls("reciprocal-branch(pi/4,pi/2)"); ctx.nontriv(); } else if (ax > PI_L / 2) { ctx.cls("(pi/2,pi]"); ctx.nontriv(); } else ctx.cls("[0,pi/4]");
  for (size_t ci = 0; ci < ctx.cuts.size(); ++ci) {
    int64_t h = ctx.cuts[ci].pidiv2; if (x == h || x == -h) { if (ci == 0) ctx.cls("pole(skipped)"); continue; }
    if (iabs128(iabs128(x) - h) <= 64 && ci == 0) { ctx.cls("within-64raw-of-pole"); ctx.nontriv(); }
    int64_t v; if (!ctx.call(ci, E_tan, x, v)) continue;
    if (m_isnan(v)) { ctx.fail(ci, strf("tan(%" PRId64 ") is NaN away from the pole", x)); continue; }
    long double err = fabsl(rv(v) - t); ctx.worst("tan_err_over_bound", err / bound);
    if (err > bound) ctx.fail(ci, strf("tan(%" PRId64 ") = %" PRId64 ": error %.3Lf ulp exceeds 2.5 ulp*(1+tan^2) = %.3Lf ulp (true tan = %.6Lf)", x, v, err / ULP, bound / ULP, t));
  }
}
static SweepInfo c10_acc_sweep(Ctx& ctx, const Clause& cl)
{
  SweepInfo si; bool thorough = ctx.tier == "thorough"; int64_t stride = 1, phase = thorough ? 0 : (int64_t)(ctx.seed % stride);
  si.exhaustive = true; si.note = true ? "every raw x in [-205887, 205887]" : strf("every %lld-th raw x in [-205887, 205887] (phase %lld)", (long long)stride, (long long)phase);
  uint64_t idx = 0;
  for (int64_t x = -205887 + phase; x <= 205887; x += stride) { if (!mine(ctx, ++idx)) continue; ctx.evaluate(cl, { x }); }
  return si;
}
static Reg r_c10_acc({ "C10.acc", "C10", "sweep",
  "every raw x with |x| <= pi (411,775 values, every run) except +-(the library's pi/2 constant); oracle: |lib - tanl(x)| <= 2.5 ulp * (1 + tanl(x)^2), not NaN; non-trivial = |x| in (pi/4, pi/2) (reciprocal branch), |x| > pi/2, or within 64 raw of the pole; distinct by construction",
  c10_acc_check, 0, nullptr, c10_acc_sweep });

// args: kind (0 oddness, 1 period, 2 pole), x, k
static void c10_rel_check(Ctx& ctx, const Args& a)
{
  const i128 LIM = (i128)1 << 62;
  if (a.size() != 3 || a[0] < 0 || a[0] > 2 || iabs128(a[1]) >= LIM) { ctx.skip(); return; }
  int kind = (int)a[0]; int64_t x = a[1], k = a[2];
  ctx.cls(kind == 0 ? "oddness" : kind == 1 ? "period" : "pole-set");
  for (size_t ci = 0; ci < ctx.cuts.size(); ++ci) {
    int64_t P = ctx.cuts[ci].phi, H = ctx.cuts[ci].pidiv2; int64_t v0, v1;
    i128 ax = iabs128(x); bool pole = (ax % P) == H;
    if (ci == 0) { if (ax > P + H) { ctx.cls("reduction-executed"); ctx.nontriv(); } if (pole) { ctx.cls("at-pole"); ctx.nontriv(); } else if (iabs128((ax % P) - H) <= 64) { ctx.cls("within-64raw-of-pole"); ctx.nontriv(); } }
    if (kind == 0) {
      if (!ctx.call(ci, E_tan, x, v0) || !ctx.call(ci, E_tan, -x, v1)) continue;
      if (!(v1 == -v0 || (m_isnan(v0) && m_isnan(v1)))) ctx.fail(ci, strf("tan(%" PRId64 ") = %" PRId64 " but tan(-x) = %" PRId64, x, v0, v1));
    } else if (kind == 1) {
      if (x < 0 || k < 0) { if (ci == 0) { ctx.skip(); return; } continue; }
      i128 y = (i128)x + (i128)k * P; if (y >= LIM) { if (ci == 0) { ctx.skip(); return; } continue; }
      if (ci == 0 && k > 0) ctx.nontriv();
      if (!ctx.call(ci, E_tan, x, v0) || !ctx.call(ci, E_tan, (int64_t)y, v1)) continue;
      if (!(v0 == v1 || (m_isnan(v0) && m_isnan(v1)))) ctx.fail(ci, strf("tan(%" PRId64 ") = %" PRId64 " but tan(x + %" PRId64 "*phi = %s) = %" PRId64, x, v0, k, i128s(y).c_str(), v1));
    } else {
      if (!ctx.call(ci, E_tan, x, v0)) continue;
      if (m_isnan(v0) != pole) ctx.fail(ci, strf("tan(%" PRId64 ") = %" PRId64 ": |x| mod phi = %s, pi/2 constant = %" PRId64 " -> NaN %s", x, v0, i128s(ax % P).c_str(), H, pole ? "expected" : "not expected"));
    }
  }
}
static Args c10_rel_decode(Ctx& ctx, Dec& d)
{
  int kind = (int)d.range(0, 2); int64_t x = dec_raw(d, 62); int mode = (int)d.range(0, 3); uint64_t u = d.u64(); int kb = (int)d.range(1, 43); int dl = (int)d.range(-3, 3); bool neg = d.flag();
  int64_t P = ctx.cuts[0].phi, H = ctx.cuts[0].pidiv2; int64_t k = 0;
  uint64_t m = ((uint64_t)1 << kb) - 1; int64_t big = (int64_t)((u & m) | ((uint64_t)1 << (kb - 1)));
  if (mode >= 2 || kind == 2) { // plant x on / next to a pole: j*phi + pi/2 + dl
    int64_t j = (mode == 3) ? big : (int64_t)(u % 5); i128 y = (i128)j * P + H + (mode == 2 && kind != 2 ? dl : (u >> 50) % 3 == 0 ? dl : 0);
    if (y < ((i128)1 << 62)) { x = (int64_t)y; if (neg) x = -x; } }
  if (mode == 1) { // residue just below / above a multiple of phi with a huge quotient: where quotient estimates of a reduction go wrong
    int64_t j = big; i128 y = (i128)j * P + ((u >> 52) & 1 ? -(int64_t)(1 + (u >> 44) % 256) : (int64_t)((u >> 44) % 256));
    if (y > 0 && y < ((i128)1 << 62)) { x = (int64_t)y; if (neg && kind != 1) x = -x; } }
  if (kind == 1) { if (x < 0) x = -x; k = mode == 0 ? (int64_t)(u % 5) : big; i128 kmax = ((((i128)1 << 62) - 1) - x) / P; if (k > kmax) k = (int64_t)kmax; }
  return { kind, x, k };
}
static Reg r_c10_rel({ "C10.rel", "C10", "rc",
  "x with |x| < 2^62 (bit-length uniform, planted on / next to the pole set j*phi + pi/2 +- 3 and within 256 raw of a multiple j*phi, with j up to 43 bits), k >= 0 with x + k*phi < 2^62; oracles (metamorphic, constants read from the library build): tan(-x) == -tan(x); tan(x + k*phi) == tan(x) for x,k >= 0; isnan(tan x) <=> (|x| mod phi) == pi/2 constant (two NaNs count as equal); non-trivial = range reduction executed, k > 0, at or within 64 raw of a pole",
  c10_rel_check, 20, c10_rel_decode, nullptr });

// ================================================================ C11
static void c11_atan_check(Ctx& ctx, const Args& a)
{
  if (a.size() != 1 || iabs128(a[0]) >= ((i128)1 << 47)) { ctx.skip(); return; }
  int64_t x = a[0]; i128 ax = iabs128(x); long double t = atanl(rv(x));
  if (ax > 159744) { ctx.cls("|x|>39/16"); ctx.nontriv(); }
  for (int64_t b : { (int64_t)28672, (int64_t)45056, (int64_t)77824, (int64_t)159744 }) if (iabs128(ax - b) <= 64) { ctx.cls("within-64raw-of-segment-boundary"); ctx.nontriv(); break; }
  if (ax >= ((i128)1 << 45)) { ctx.cls("|raw|>=2^45"); ctx.nontriv(); } else if (ax >= ((i128)1 << 29)) { ctx.cls("2^29<=|raw|<2^45"); ctx.nontriv(); } else ctx.cls("|raw|<2^29");
  for (size_t ci = 0; ci < ctx.cuts.size(); ++ci) {
    int64_t v, vn; if (!ctx.call(ci, E_atan, x, v)) continue;
    long double err = fabsl(rv(v) - t); ctx.worst("atan_abs_err", err);
    if (err > 5e-5L + SLACK) ctx.fail(ci, strf("atan(%" PRId64 ") = %" PRId64 ": error %.3Le exceeds 5e-5 (true %.9Lf)", x, v, err, t));
    if (v > ctx.cuts[ci].pidiv2 || v < -ctx.cuts[ci].pidiv2) ctx.fail(ci, strf("atan(%" PRId64 ") = %" PRId64 " exceeds the pi/2 constant %" PRId64, x, v, ctx.cuts[ci].pidiv2));
    if (ctx.call(ci, E_atan, -x, vn) && vn != -v) ctx.fail(ci, strf("atan(%" PRId64 ") = %" PRId64 " but atan(-x) = %" PRId64, x, v, vn));
  }
}
static SweepInfo c11_atan_sweep(Ctx& ctx, const Clause& cl)
{
  SweepInfo si; bool thorough = ctx.tier == "thorough";
  int exbits = thorough ? 23 : 20; uint64_t per = thorough ? 4000000 : 60000;
  si.note = strf("exhaustive on raw [0, 2^%d) and its mirror image; lattice of %llu values per bit length %d..47 (offset from VERIF_SEED); segment boundaries +-64", exbits, (unsigned long long)per, exbits + 1);
  uint64_t idx = 0;
  for (int64_t x = 0; x < ((int64_t)1 << exbits); ++x) { if (!mine(ctx, ++idx)) continue; ctx.evaluate(cl, { x }); }
  for (int64_t b : { (int64_t)28672, (int64_t)45056, (int64_t)77824, (int64_t)159744 }) for (int64_t dl = -64; dl <= 64; ++dl) if (mine(ctx, ++idx)) ctx.evaluate(cl, { b + dl });
  for (int len = exbits + 1; len <= 47; ++len) lattice(ctx, len, per, ctx.seed * 131 + 11, [&](uint64_t v) { if (mine(ctx, ++idx)) ctx.evaluate(cl, { (idx & 1) ? (int64_t)v : -(int64_t)v }); });
  return si;
}
static Reg r_c11_atan({ "C11.atan", "C11", "sweep",
  "raw x with |x| < 2^47: exhaustive on [0, 2^20) quick / [0, 2^23) thorough (oddness checks the mirror image), a seed-offset lattice per bit length up to 47, and the four segment boundaries +-64; oracle: |lib - atanl(x)| <= 5e-5, atan(-x) == -atan(x) exactly, |atan(x)| <= the library's pi/2 constant; non-trivial = |x| > 39/16, within 64 raw of a segment boundary, or |raw| >= 2^29; distinct by construction",
  c11_atan_check, 0, nullptr, c11_atan_sweep });

static void c11_mono_check(Ctx& ctx, const Args& a)
{
  if (a.size() != 2 || iabs128(a[0]) >= ((i128)1 << 47) || iabs128(a[1]) >= ((i128)1 << 47) || a[0] > a[1]) { ctx.skip(); return; }
  int64_t x = a[0], y = a[1];
  if (y - x <= 16) { ctx.cls("adjacent(<=16raw)"); ctx.nontriv(); } else ctx.cls("apart");
  for (int64_t b : { (int64_t)28672, (int64_t)45056, (int64_t)77824, (int64_t)159744 }) if ((iabs128(x) <= b) != (iabs128(y) <= b)) { ctx.cls("straddles-segment-boundary"); ctx.nontriv(); break; }
  for (size_t ci = 0; ci < ctx.cuts.size(); ++ci) {
    int64_t vx, vy; if (!ctx.call(ci, E_atan, x, vx) || !ctx.call(ci, E_atan, y, vy)) continue;
    if (vx > vy + 2) ctx.fail(ci, strf("x=%" PRId64 " <= y=%" PRId64 " but atan(x) = %" PRId64 " > atan(y) + 2 ulp = %" PRId64, x, y, vx, vy + 2));
    if (vx > vy) ctx.worst("atan_monotonicity_drop_ulp", (long double)(vx - vy));
  }
}
static Args c11_mono_decode(Ctx&, Dec& d)
{
  int64_t x = dec_raw(d, 47); int mode = (int)d.range(0, 3); int64_t y = dec_raw(d, 47); uint64_t u = d.u64();
  if (mode <= 1) y = x + (int64_t)(u % 17); else if (mode == 2) y = x + (int64_t)(u % 100000);
  if (iabs128(y) >= ((i128)1 << 47)) y = x;
  if (x > y) std::swap(x, y);
  return { x, y };
}
static Reg r_c11_mono({ "C11.mono", "C11", "rc",
  "pairs x <= y with |x|,|y| < 2^47: adjacent (distance <= 16 raw), near (< 100000 raw) and independent pairs; oracle: atan(x) <= atan(y) + 2 ulp; non-trivial = adjacent pairs or pairs straddling a segment boundary",
  c11_mono_check, 16, c11_mono_decode, nullptr });

static void c11_atan2_check(Ctx& ctx, const Args& a)
{
  if (a.size() != 2 || iabs128(a[0]) >= ((i128)1 << 47) || iabs128(a[1]) >= ((i128)1 << 47)) { ctx.skip(); return; }
  int64_t y = a[0], x = a[1];
  bool axis = x == 0 || y == 0;
  if (axis) { ctx.cls("axis"); ctx.nontriv(); }
  else { int lr = bitlen64((uint64_t)(y < 0 ? -y : y)) - bitlen64((uint64_t)(x < 0 ? -x : x)); if (lr > 13 || lr < -13) { ctx.cls("|log2|y/x||>13"); ctx.nontriv(); } else ctx.cls("|log2|y/x||<=13");
         if (lr > 29 || lr < -29) ctx.cls("|log2|y/x||>29"); }
  ctx.cls(x < 0 ? (y < 0 ? "Q3" : "Q2") : (y < 0 ? "Q4" : "Q1"));
  long double t = atan2l(rv(y), rv(x));
  for (size_t ci = 0; ci < ctx.cuts.size(); ++ci) {
    int64_t v; if (!ctx.call(ci, E_atan2, y, x, v)) continue;
    int64_t P = ctx.cuts[ci].phi, H = ctx.cuts[ci].pidiv2;
    if (x == 0 && y == 0) { if (!m_isnan(v)) ctx.fail(ci, strf("atan2(0, 0) = %" PRId64 ", expected NaN", v)); continue; }
    if (m_isnan(v)) { ctx.fail(ci, strf("atan2(%" PRId64 ", %" PRId64 ") is NaN", y, x)); continue; }
    if (x == 0) { if (v != (y > 0 ? H : -H)) ctx.fail(ci, strf("atan2(%" PRId64 ", 0) = %" PRId64 ", expected %s pi/2 constant %" PRId64, y, v, y > 0 ? "+" : "-", H)); continue; }
    if (y == 0) { if (v != (x > 0 ? 0 : P)) ctx.fail(ci, strf("atan2(0, %" PRId64 ") = %" PRId64 ", expected %" PRId64, x, v, x > 0 ? (int64_t)0 : P)); continue; }
    long double err = fabsl(rv(v) - t); ctx.worst("atan2_abs_err", err);
    if (err > 8e-5L + SLACK) ctx.fail(ci, strf("atan2(%" PRId64 ", %" PRId64 ") = %" PRId64 ": error %.3Le exceeds 8e-5 (true %.9Lf)", y, x, v, err, t));
    if ((y > 0 && v < 0) || (y < 0 && v > 0)) ctx.fail(ci, strf("atan2(%" PRId64 ", %" PRId64 ") = %" PRId64 " has the wrong sign for y", y, x, v));
  }
}
static Args c11_atan2_decode(Ctx&, Dec& d)
{
  int64_t y = dec_raw(d, 47), x = dec_raw(d, 47); int mode = (int)d.range(0, 9); uint64_t u = d.u64(); int ly = (int)d.range(1, 47), lx = (int)d.range(1, 47); bool ny = d.flag(), nx = d.flag();
  if (mode == 0) { if (u & 1) x = 0; else y = 0; if ((u >> 1) % 16 == 0) { x = 0; y = 0; } }
  else if (mode <= 6) { // independent bit lengths: log2|y/x| uniform over [-46, 46]
    uint64_t u2 = d.u64(); y = (int64_t)((u & (((uint64_t)1 << ly) - 1)) | ((uint64_t)1 << (ly - 1))); x = (int64_t)((u2 & (((uint64_t)1 << lx) - 1)) | ((uint64_t)1 << (lx - 1))); if (ny) y = -y; if (nx) x = -x; }
  return { y, x };
}
static Reg r_c11_atan2({ "C11.atan2", "C11", "rc",
  "pairs (y, x) with |y|,|x| < 2^47: both magnitudes bit-length uniform and independent (log2|y/x| uniform over [-46,46]), all sign combinations, the axes (1/10) and (0,0); oracle: |lib - atan2l| <= 8e-5, result not negative for y>0 / not positive for y<0, exactly +-(pi/2 constant) for x==0, exactly 0 or phi for y==0, NaN for (0,0), never NaN otherwise; non-trivial = an axis case or |log2|y/x|| > 13",
  c11_atan2_check, 24, c11_atan2_decode, nullptr });

// ================================================================ C12
static void c12_in_check(Ctx& ctx, const Args& a)
{
  if (a.size() != 1 || a[0] < -65536 || a[0] > 65536) { ctx.skip(); return; }
  int64_t x = a[0]; int64_t ax = x < 0 ? -x : x;
  if (ax > 39322 - 3 && ax < 39322 + 3) { ctx.cls("at-0.6-switch"); ctx.nontriv(); }
  if (ax > 64880) { ctx.cls("|x|>0.99"); ctx.nontriv(); } else if (ax > 39321) { ctx.cls("sqrt-branch(|x|>0.6)"); ctx.nontriv(); } else ctx.cls("series-branch");
  long double lo = asinl(std::max(rv(x) - 2 * ULP, -1.0L)) - 4 * ULP - SLACK, hi = asinl(std::min(rv(x) + 2 * ULP, 1.0L)) + 4 * ULP + SLACK;
  for (size_t ci = 0; ci < ctx.cuts.size(); ++ci) {
    int64_t v, vn, vp, ac; if (!ctx.call(ci, E_asin, x, v)) continue;
    if (m_isnan(v)) { ctx.fail(ci, strf("asin(%" PRId64 ") is NaN inside [-1, 1]", x)); continue; }
    if (rv(v) < lo || rv(v) > hi) ctx.fail(ci, strf("asin(%" PRId64 ") = %" PRId64 " is outside [asin(x-2ulp)-4ulp, asin(x+2ulp)+4ulp] = [%.3Lf, %.3Lf] raw", x, v, lo * 65536, hi * 65536));
    ctx.worst(ctx.cuts[ci].abacus ? "asin_err_ulp(abacus)" : "asin_err_ulp(std)", fabsl(rv(v) - asinl(rv(x))) / ULP);
    if (ctx.call(ci, E_asin, -x, vn) && vn != -v) ctx.fail(ci, strf("asin(%" PRId64 ") = %" PRId64 " but asin(-x) = %" PRId64, x, v, vn));
    if (x > -65536 && ctx.call(ci, E_asin, x - 1, vp) && !m_isnan(vp) && vp > v) ctx.fail(ci, strf("asin is decreasing: asin(%" PRId64 ") = %" PRId64 " > asin(%" PRId64 ") = %" PRId64, x - 1, vp, x, v));
    if (ctx.call(ci, E_acos, x, ac)) {
      if (m_isnan(ac)) { ctx.fail(ci, strf("acos(%" PRId64 ") is NaN inside [-1, 1]", x)); continue; }
      // within 1 ulp of pi/2 - asin(x), with the real pi/2 (the library's own phi/2 = 102943 raw is 0.70 ulp below it,
      // its fixpidiv2 = 102944 is 0.30 ulp above: either constant leaves an exact subtraction inside the bound)
      long double d1 = fabsl(rv(ac) - (PI_L / 2 - rv(v))); ctx.worst("acos_minus_(pi/2-asin)_ulp", d1 / ULP);
      if (d1 > ULP + SLACK) ctx.fail(ci, strf("acos(%" PRId64 ") = %" PRId64 " is %.3Lf ulp from pi/2 - asin(x) (asin = %" PRId64 ")", x, ac, d1 / ULP, v));
      if (ac < -1 || rv(ac) > PI_L + ULP + SLACK) ctx.fail(ci, strf("acos(%" PRId64 ") = %" PRId64 " is more than 1 ulp outside [0, pi]", x, ac));
    }
  }
}
static SweepInfo c12_in_sweep(Ctx& ctx, const Clause& cl)
{
  SweepInfo si; si.exhaustive = true; si.note = "every raw x in [-65536, 65536] on every loaded configuration (both square-root algorithms)";
  uint64_t idx = 0; for (int64_t x = -65536; x <= 65536; ++x) if (mine(ctx, ++idx)) ctx.evaluate(cl, { x });
  return si;
}
static Reg r_c12_in({ "C12.in", "C12", "sweep",
  "every raw x in [-65536, 65536] (131,073 values, every run) under both square-root algorithms; oracle: not NaN; asin(x) in [asinl(max(x-2u,-1)) - 4u, asinl(min(x+2u,1)) + 4u]; asin(-x) == -asin(x); asin(x) >= asin(x-1 raw); acos(x) within 1 ulp of pi/2 - asin(x) and of [0, pi]; non-trivial = |x| > 0.6 (square-root branch), |x| > 0.99, or at the 0.6 switch; distinct by construction",
  c12_in_check, 0, nullptr, c12_in_sweep });

static Args c12_inrc_decode(Ctx&, Dec& d) { uint64_t u = d.u64(); int64_t x = (int64_t)(u % 131073) - 65536; if ((u >> 40) % 4 == 0) x = (x < 0 ? -1 : 1) * (39322 + (int64_t)((u >> 20) % 26215)); return { x }; }
static Reg r_c12_inrc({ "C12.inrc", "C12", "rc", "generated raw x in [-65536, 65536] (one quarter in the square-root branch |x| > 0.6): same oracle as C12.in; exists so that libFuzzer and the constant-evaluation engine can be driven by this domain", c12_in_check, 4, c12_inrc_decode, nullptr });
static void c12_out_check(Ctx& ctx, const Args& a)
{
  if (a.size() != 1 || !m_finite128(a[0]) || (a[0] >= -65536 && a[0] <= 65536)) { ctx.skip(); return; }
  int64_t x = a[0]; if (iabs128(x) <= 65536 + 16) { ctx.cls("just-outside"); ctx.nontriv(); } else if (iabs128(x) >= ((i128)1 << 47)) { ctx.cls("huge"); ctx.nontriv(); } else ctx.cls("outside");
  for (size_t ci = 0; ci < ctx.cuts.size(); ++ci) {
    int64_t v;
    if (ctx.call(ci, E_asin, x, v) && !m_isnan(v)) ctx.fail(ci, strf("asin(%" PRId64 ") = %" PRId64 ", expected NaN for |x| > 1", x, v));
    if (ctx.call(ci, E_acos, x, v) && !m_isnan(v)) ctx.fail(ci, strf("acos(%" PRId64 ") = %" PRId64 ", expected NaN for |x| > 1", x, v));
  }
}
static Args c12_out_decode(Ctx&, Dec& d)
{
  int64_t x = dec_raw(d); int mode = (int)d.range(0, 2); uint64_t u = d.u64(); bool neg = d.flag();
  if (mode == 0) { x = 65537 + (int64_t)(u % 32); if (neg) x = -x; }
  if (x >= -65536 && x <= 65536) x = neg ? -65537 - (int64_t)(u % 1000) : 65537 + (int64_t)(u % 1000);
  return { x };
}
static Reg r_c12_out({ "C12.out", "C12", "rc",
  "finite raw x with |x| > 1: one third within 32 raw of +-1, the rest from the raw classes up to +-MAXF; oracle: asin and acos are NaN; non-trivial = within 16 raw of +-1 or |raw| >= 2^47",
  c12_out_check, 10, c12_out_decode, nullptr });

// ================================================================ C13
static const int kSqrtIds[3] = { E_sqrt, E_sqrt_abacus, E_sqrt_std };
static void c13_check(Ctx& ctx, const Args& a)
{
  if (a.size() != 1 || !m_finite128(a[0]) || a[0] >= ((int64_t)1 << 47)) { ctx.skip(); return; }
  int64_t x = a[0];
  if (x < 0) { ctx.cls("negative"); ctx.nontriv(); }
  else if (x >= ((int64_t)1 << 46)) { ctx.cls("top-binade[2^46,2^47)"); ctx.nontriv(); }
  else if (x >= ((int64_t)1 << 22)) { ctx.cls("raw>=2^22"); ctx.nontriv(); } else ctx.cls("raw<2^22");
  for (size_t ci = 0; ci < ctx.cuts.size(); ++ci)
    for (int k = 0; k < 3; ++k) {
      int64_t s, s1; if (!ctx.call(ci, kSqrtIds[k], x, s)) continue;
      if (x < 0) { if (!m_isnan(s)) ctx.fail(ci, strf("%s(%" PRId64 ") = %" PRId64 ", expected NaN for a negative argument", g_sigs[kSqrtIds[k]].name, x, s)); continue; }
      if (x == 0) { if (s != 0) ctx.fail(ci, strf("%s(0) = %" PRId64, g_sigs[kSqrtIds[k]].name, s)); continue; }
      i128 R = (i128)x << 16;   // (s/2^16)^2 = x/2^16  <=>  s^2 = x*2^16
      bool ok = !m_isnan(s) && s >= 0 && ((i128)(s - 1) * (s - 1) < R || s == 0) && R < (i128)(s + 1) * (s + 1);
      if (!ok) { ctx.fail(ci, strf("%s(%" PRId64 ") = %" PRId64 " is not within one ulp of the real root (isqrt(x*2^16) = %.0Lf)", g_sigs[kSqrtIds[k]].name, x, s, floorl(sqrtl((long double)R)))); continue; }
      if (x + 1 < ((int64_t)1 << 47) && ctx.call(ci, kSqrtIds[k], x + 1, s1) && s1 < s) ctx.fail(ci, strf("%s is decreasing: %s(%" PRId64 ") = %" PRId64 " > %s(%" PRId64 ") = %" PRId64, g_sigs[kSqrtIds[k]].name, g_sigs[kSqrtIds[k]].name, x, s, g_sigs[kSqrtIds[k]].name, x + 1, s1));
    }
}
static SweepInfo c13_sweep(Ctx& ctx, const Clause& cl)
{
  SweepInfo si; bool thorough = ctx.tier == "thorough"; int exbits = thorough ? 22 : 19; uint64_t per = thorough ? 2000000 : 40000;
  si.note = strf("exhaustive on raw [0, 2^%d); lattice of %llu values per bit length %d..47 (offset from VERIF_SEED); perfect squares k^2/2^16 for k = 256*j; each through sqrt, detail::sqrt_abacus and detail::sqrt_std_math", exbits, (unsigned long long)per, exbits + 1);
  uint64_t idx = 0;
  for (int64_t x = 0; x < ((int64_t)1 << exbits); ++x) if (mine(ctx, ++idx)) ctx.evaluate(cl, { x });
  for (int len = exbits + 1; len <= 47; ++len) lattice(ctx, len, per, ctx.seed * 257 + 13, [&](uint64_t v) { if (mine(ctx, ++idx)) ctx.evaluate(cl, { (int64_t)v }); });
  uint64_t nsq = thorough ? 2000000 : 50000; uint64_t kmaxj = ((uint64_t)1 << 31) - 1; // k = 256*j < 2^39 -> k^2/2^16 < 2^62.. keep k^2/2^16 < 2^47: j^2 < 2^47 -> j < 2^23.5
  kmaxj = 11863283; uint64_t stepj = std::max<uint64_t>(1, kmaxj / nsq), offj = mix64(ctx.seed + 5) % stepj;
  for (uint64_t j = 1 + offj; j <= kmaxj; j += stepj) if (mine(ctx, ++idx)) { ctx.evaluate(cl, { (int64_t)(j * j) }); ++ctx.extra["perfect-squares"]; }
  return si;
}
static Reg r_c13({ "C13.sqrt", "C13", "sweep",
  "raw x in [0, 2^47): exhaustive on [0, 2^19) quick / [0, 2^22) thorough, seed-offset lattice per bit length up to 47, perfect squares (256 j)^2/2^16, each through sqrt, detail::sqrt_abacus and detail::sqrt_std_math on every configuration; oracle (integers only): s >= 0 and (s-1)^2 < x*2^16 < (s+1)^2, sqrt(x+1 raw) >= sqrt(x), sqrt(0) == 0; non-trivial = raw >= 2^22 (beyond anything the suite samples), in particular the top binade [2^46, 2^47); distinct by construction",
  c13_check, 0, nullptr, c13_sweep });
static Args c13_rc_decode(Ctx&, Dec& d)
{
  int mode = (int)d.range(0, 5); int64_t x = dec_raw(d, 47); uint64_t u = d.u64();
  if (mode == 0) x = dec_raw(d);                      // any finite value incl. negatives (|x| may exceed 2^47 only when negative)
  else if (mode == 1) { uint64_t k = u % 11863283ull * 256; x = (int64_t)((u128)k * k >> 16); x += (int64_t)((u >> 40) % 3) - 1; }
  if (x >= ((int64_t)1 << 47)) x = -x;
  if (mode >= 2 && x < 0) x = -x;
  return { x };
}
static Reg r_c13_rc({ "C13.sqrtrc", "C13", "rc",
  "generated raw x: non-negative values bit-length uniform below 2^47, perfect squares +-1 raw, and negative values of any magnitude; oracle as C13.sqrt plus NaN for every negative argument; non-trivial as C13.sqrt or negative",
  c13_check, 12, c13_rc_decode, nullptr });

// ================================================================ C14
static void c14_check(Ctx& ctx, const Args& a)
{
  const i128 LIM = (i128)1 << 47;
  if (a.size() != 2 || iabs128(a[0]) >= LIM || iabs128(a[1]) >= LIM) { ctx.skip(); return; }
  int64_t x = a[0], y = a[1]; int64_t ax = x < 0 ? -x : x, ay = y < 0 ? -y : y; int64_t hi = std::max(ax, ay), lo = std::min(ax, ay);
  bool small = hi < ((int64_t)16384 << 16);
  if (hi >= ((int64_t)1 << 30)) { ctx.cls("branch:hi>=2^30(shift-right)"); } else if (lo < 65536) ctx.cls("branch:lo<2^16(shift-left)"); else ctx.cls("branch:direct");
  if (hi >= ((int64_t)1 << 29) || lo < 65536) ctx.nontriv();
  for (int64_t t : { (int64_t)1 << 30, (int64_t)65536, (int64_t)16384 << 16 }) if (iabs128((i128)hi - t) <= 8 || iabs128((i128)lo - t) <= 8) { ctx.cls("threshold+-8"); ctx.nontriv(); break; }
  if (lo == 0) ctx.cls("one-zero");
  long double t = sqrtl((long double)((u128)((i128)ax * ax) + (u128)((i128)ay * ay))) ;   // in raw units (128-bit sum of squares, then long double)
  { u128 ss = (u128)((i128)ax * ax) + (u128)((i128)ay * ay); long double hi64 = (long double)(uint64_t)(ss >> 64), lo64 = (long double)(uint64_t)ss; t = sqrtl(hi64 * 18446744073709551616.0L + lo64); }
  for (size_t ci = 0; ci < ctx.cuts.size(); ++ci) {
    int64_t h, h2, h3; if (!ctx.call(ci, E_hypot, x, y, h)) continue;
    if (m_isnan(h) || h < 0) { ctx.fail(ci, strf("hypot(%" PRId64 ", %" PRId64 ") = %" PRId64 " is NaN or negative", x, y, h)); continue; }
    long double err = fabsl((long double)h - t);
    if (small) { ctx.worst(ctx.cuts[ci].abacus ? "hypot_err_ulp_small(abacus)" : "hypot_err_ulp_small(std)", err); if (err > 2.0L + 1e-6L) ctx.fail(ci, strf("hypot(%" PRId64 ", %" PRId64 ") = %" PRId64 ": error %.3Lf ulp exceeds 2 ulp (true %.3Lf raw)", x, y, h, err, t)); }
    else { long double rel = err / t; ctx.worst("hypot_rel_err_large", rel); if (rel > 1.5e-4L * (1 + 1e-9L)) ctx.fail(ci, strf("hypot(%" PRId64 ", %" PRId64 ") = %" PRId64 ": relative error %.3Le exceeds 1.5e-4 (true %.3Lf raw)", x, y, h, rel, t)); }
    if (ctx.call(ci, E_hypot, y, x, h2) && h2 != h) ctx.fail(ci, strf("hypot(a,b) = %" PRId64 " but hypot(b,a) = %" PRId64 " (a=%" PRId64 ", b=%" PRId64 ")", h, h2, x, y));
    if (ctx.call(ci, E_hypot, ax, ay, h3) && h3 != h) ctx.fail(ci, strf("hypot(a,b) = %" PRId64 " but hypot(|a|,|b|) = %" PRId64 " (a=%" PRId64 ", b=%" PRId64 ")", h, h3, x, y));
  }
}
static Args c14_decode(Ctx&, Dec& d)
{
  int64_t x = dec_raw(d, 47), y = dec_raw(d, 47); int mode = (int)d.range(0, 7); uint64_t u = d.u64(); int dl = (int)d.range(-8, 8), dl2 = (int)d.range(-8, 8); int la = (int)d.range(1, 47); bool nx = d.flag(), ny = d.flag();
  auto bl = [&](int len, uint64_t w) { return (int64_t)((w & (((uint64_t)1 << len) - 1)) | ((uint64_t)1 << (len - 1))); };
  switch (mode) {
    case 0: break;
    case 1: { int lb = la + (int)(u % 5) - 2; if (lb < 1) lb = 1; if (lb > 47) lb = 47; x = bl(la, u >> 3); y = bl(lb, d.u64()); break; }        // same magnitude
    case 2: x = bl(la, u); y = (int64_t)(d.u64() % 65536); break;                                                  // small second operand
    case 3: x = ((int64_t)1 << 30) + dl; y = (u % 3 == 0) ? 65536 + dl2 : (int64_t)(u >> 8) % ((int64_t)1 << 31); break;               // hi at the 2^30 threshold
    case 4: x = ((int64_t)1 << 30) - 1 - (int64_t)(u % 4); y = 46000 + (int64_t)((u >> 8) % 20000); break;         // widest left shift, lo just below 2^16
    case 5: x = ((int64_t)16384 << 16) + dl; y = (int64_t)(u % ((uint64_t)16384 << 16)); break;                        // tolerance switch
    case 6: if (u & 1) x = 0; else { int sh = (int)((u >> 1) % 5); x = (int64_t)(0xb504f334ull >> sh) - (int64_t)((u >> 4) % 4); y = (int64_t)(20000 + (u >> 8) % 45536); } break;   // hi just below the 2^31.5 guard constant (at every scale), lo large: the scaled sum of squares reaches [2^63, 2^64)
    case 7: { int l = 17 + (int)(u % 14); x = bl(l, u >> 8); y = (int64_t)(d.u64() % 65536); break; }               // shift-left branch, all shift amounts
  }
  if (x >= ((int64_t)1 << 47)) x = ((int64_t)1 << 47) - 1; if (y >= ((int64_t)1 << 47)) y = ((int64_t)1 << 47) - 1;
  if (nx) x = -x; if (ny) y = -y;
  if (u >> 63) std::swap(x, y);
  return { x, y };
}
static Reg r_c14({ "C14.hypot", "C14", "rc",
  "pairs (a, b) with |a|,|b| < 2^47 under both square-root algorithms: independent, same magnitude, one operand below 2^16 raw, max planted at the 2^30 normalisation threshold +-8 (incl. 2^30-1-j with min in [46000, 66000]), the 16384 tolerance switch +-8, max just below the 2^31.5 overflow-guard constant of the code at every scale with a large min (scaled sum of squares in [2^63, 2^64)), one operand zero, every left-shift amount; oracle: t = sqrtl(a^2+b^2) from the exact 128-bit sum; |h-t| <= 2 ulp when both < 16384, else |h-t|/t <= 1.5e-4; h(a,b) == h(b,a) == h(|a|,|b|); never NaN or negative; non-trivial = max >= 2^29 raw, min < 2^16 raw, or within 8 raw of a threshold",
  c14_check, 24, c14_decode, nullptr });
