// C01 — addition and subtraction are exact or NaN, however the call is compiled.
#include "registry.hpp"
#include "model.hpp"

// ---- C01.addsub: the four operators (+ the named functions) on opaque operands -----------------
static const int kAddSubOps[6] = { E_add, E_sub, E_addeq, E_subeq, E_fadd, E_fsub };
static void c01_classify(Ctx& ctx, i128 s)
{
  if (!m_finite128(s)) { ctx.cls("overflow"); ctx.nontriv(); }
  else if (iabs128(s) >= (i128)MAXF - 131072) { ctx.cls("near-limit"); ctx.nontriv(); }
  else ctx.cls("interior");
  i128 as = iabs128(s);
  if (as >= (i128)MAXF - 3 && as <= ((i128)1 << 63) + 4) ctx.cls("at-boundary+-3");
  if (s == -((i128)1 << 63)) ctx.cls("sum==-2^63");
}
static void c01_addsub_check(Ctx& ctx, const Args& a)
{
  if (a.size() != 3 || a[0] < 0 || a[0] > 5 || !m_finite128(a[1]) || !m_finite128(a[2])) { ctx.skip(); return; }
  int op = (int)a[0]; bool sub = op & 1;
  i128 s = sub ? (i128)a[1] - a[2] : (i128)a[1] + a[2];
  c01_classify(ctx, s); ctx.cls(g_sigs[kAddSubOps[op]].name);
  if (ctx.verbose()) ctx.expect(m_finite128(s) ? "raw " + i128s(s) : "NaN (exact result " + i128s(s) + " outside [lowest,max])");
  for (size_t ci = 0; ci < ctx.cuts.size(); ++ci) {
    int64_t r; if (!ctx.call(ci, kAddSubOps[op], a[1], a[2], r)) continue;
    if (!ok_exact_or_nan(s, r)) ctx.fail(ci, strf("%s(%" PRId64 ", %" PRId64 ") = %" PRId64 ", exact result %s -> expected %s", g_sigs[kAddSubOps[op]].name, a[1], a[2], r, i128s(s).c_str(), m_finite128(s) ? "that value" : "NaN"));
  }
}
static const i128 kAddTargets[] = { 0, (i128)MAXF, -(i128)MAXF, (i128)MAXF + 1, -(i128)MAXF - 1, (i128)1 << 63, -((i128)1 << 63), ((i128)1 << 63) + 1, -((i128)1 << 63) - 1, ((i128)1 << 63) + 65536, (i128)MAXF - 65536 };
static const int kNAddTargets = 11;
static int64_t fin_clamp(i128 v) { return v > (i128)MAXF ? MAXF : v < -(i128)MAXF ? -MAXF : (int64_t)v; }
static Args c01_addsub_decode(Ctx&, Dec& d)
{
  int op = (int)d.range(0, 5); int64_t a = dec_raw(d); int mode = (int)d.range(0, 3); int64_t b0 = dec_raw(d);
  int ti = (int)d.range(0, kNAddTargets - 1); int dl = (int)d.range(-3, 3);
  int64_t b = b0; bool sub = op & 1;
  if (mode == 1 || mode == 2) { i128 T = kAddTargets[ti] + dl; b = fin_clamp(sub ? (i128)a - T : T - (i128)a); }
  else if (mode == 3) { b = fin_clamp(((ti & 1) ? -(i128)a : (i128)a) + dl); }
  return { op, a, b };
}
static Reg r_c01_addsub({ "C01.addsub", "C01", "rc",
  "pairs of finite raw values x {+,-,+=,-=,fixed_addition,fixed_substract}; half of the pairs are result-targeted (b solved so that the exact result is one of {0, +-MAXF, +-(MAXF+1), +-2^63, +-(2^63+1)} +- 3); oracle: exact 128-bit sum, result must equal it when in [lowest,max] and be +-NaN otherwise, on every loaded build configuration; non-trivial = exact result out of range or within 2^17 of +-MAXF",
  c01_addsub_check, 16, c01_addsub_decode, nullptr });

// ---- C01.shape: the operator inlined into callers that know something about the operands -------
enum Shape { SH_add_pp, SH_add_nn, SH_sub_pn, SH_sub_np, SH_add_fpp, SH_add_fnn, SH_dbl, SH_tpl, SH_sub_neg, SH_add_isnan, SH_sub_isnan, SH_loop_add, SH_loop_sub, SH_chain, SH_add3, SH_add3r, SH_addsub, SH_addeq_self, SH_subeq_self, SH_COUNT };
static const int kShapeEntry[SH_COUNT] = { E_add_pp, E_add_nn, E_sub_pn, E_sub_np, E_add_fpp, E_add_fnn, E_dbl, E_tpl, E_sub_neg, E_add_isnan, E_sub_isnan, E_loop_add, E_loop_sub, E_chain, E_add3, E_add3r, E_addsub, E_addeq_self, E_subeq_self };

// expected value of a shape in the exact model; MV::UNSPEC when an operand of a later step is NaN
static MV c01_shape_model(int sh, int64_t a, int64_t b, int64_t c, bool& isbool)
{
  isbool = false;
  MV A = MV::fin(a), B = MV::fin(b), C = MV::fin(c);
  switch (sh) {
    case SH_add_pp: case SH_add_fpp: return (a > 0 && b > 0) ? m_add(A, B) : MV::fin(0);
    case SH_add_nn: case SH_add_fnn: return (a < 0 && b < 0) ? m_add(A, B) : MV::fin(0);
    case SH_sub_pn: return (a > 0 && b < 0) ? m_sub(A, B) : MV::fin(0);
    case SH_sub_np: return (a < 0 && b > 0) ? m_sub(A, B) : MV::fin(0);
    case SH_dbl: case SH_addeq_self: return m_add(A, A);
    case SH_subeq_self: return m_sub(A, A);
    case SH_tpl: return m_add(m_add(A, A), A);
    case SH_sub_neg: return m_sub(A, MV::fin(-(i128)a));
    case SH_add_isnan: { isbool = true; MV r = m_add(A, B); return MV::fin(r.k == MV::NAN_ ? 1 : 0); }
    case SH_sub_isnan: { isbool = true; MV r = m_sub(A, B); return MV::fin(r.k == MV::NAN_ ? 1 : 0); }
    case SH_loop_add: { MV acc = A; for (int64_t i = 0; i < c; ++i) acc = m_add(acc, B); return acc; }
    case SH_loop_sub: { MV acc = A; for (int64_t i = 0; i < c; ++i) acc = m_sub(acc, B); return acc; }
    case SH_chain: return m_sub(m_add(A, B), C);
    case SH_add3: return m_add(m_add(A, B), C);
    case SH_add3r: return m_add(A, m_add(B, C));
    case SH_addsub: return m_sub(m_add(A, B), B);
  }
  return MV::unspec();
}
static void c01_shape_check(Ctx& ctx, const Args& a)
{
  if (a.size() != 4 || a[0] < 0 || a[0] >= SH_COUNT || !m_finite128(a[1]) || !m_finite128(a[2]) || !m_finite128(a[3])) { ctx.skip(); return; }
  int sh = (int)a[0]; if ((sh == SH_loop_add || sh == SH_loop_sub) && (a[3] < 0 || a[3] > 64)) { ctx.skip(); return; }
  bool isbool; MV e = c01_shape_model(sh, a[1], a[2], a[3], isbool);
  if (e.k == MV::UNSPEC) { ctx.skip(); return; }   // a NaN operand reached a later step: outside the property
  ctx.cls(g_sigs[kShapeEntry[sh]].name);
  if (e.k == MV::NAN_ || (isbool && e.v == 1)) { ctx.cls("overflow"); ctx.nontriv(); }
  else if (!isbool && iabs128(e.v) >= (i128)MAXF - 131072) { ctx.cls("near-limit"); ctx.nontriv(); }
  if (ctx.verbose()) ctx.expect(e.k == MV::NAN_ ? std::string("NaN") : "value " + i128s(e.v));
  for (size_t ci = 0; ci < ctx.cuts.size(); ++ci) {
    int64_t r; if (!ctx.call(ci, kShapeEntry[sh], a[1], a[2], a[3], r)) continue;
    bool ok = e.k == MV::NAN_ ? m_isnan(r) : r == (int64_t)e.v;
    if (!ok) ctx.fail(ci, strf("%s(%" PRId64 ", %" PRId64 ", %" PRId64 ") = %" PRId64 ", expected %s", g_sigs[kShapeEntry[sh]].name, a[1], a[2], a[3], r, e.k == MV::NAN_ ? "NaN" : i128s(e.v).c_str()));
  }
}
static Args c01_shape_decode(Ctx&, Dec& d)
{
  int sh = (int)d.range(0, SH_COUNT - 1); int64_t a = dec_raw(d), b = dec_raw(d), c = dec_raw(d);
  int ti = (int)d.range(0, kNAddTargets - 1); int dl = (int)d.range(-3, 3); int mode = (int)d.range(0, 3); int n = (int)d.range(1, 16);
  i128 T = kAddTargets[ti] + dl; i128 Tp = T < 0 ? -T : T; if (Tp == 0) Tp = (i128)MAXF;
  auto pos = [](int64_t v) { return v > 0 ? v : v < 0 ? -v : 1; };
  switch (sh) {
    case SH_add_pp: case SH_add_fpp: a = pos(a); b = mode ? fin_clamp(Tp - a) : pos(b); if (b <= 0) b = 1; break;
    case SH_add_nn: case SH_add_fnn: a = -pos(a); b = mode ? fin_clamp(-Tp - a) : -pos(b); if (b >= 0) b = -1; break;
    case SH_sub_pn: a = pos(a); b = mode ? fin_clamp((i128)a - Tp) : -pos(b); if (b >= 0) b = -1; break;
    case SH_sub_np: a = -pos(a); b = mode ? fin_clamp((i128)a + Tp) : pos(b); if (b <= 0) b = 1; break;
    case SH_dbl: case SH_sub_neg: case SH_addeq_self: case SH_subeq_self: if (mode) a = fin_clamp(T / 2 + (mode == 2 ? 1 : 0)); break;
    case SH_tpl: if (mode) { a = fin_clamp(T / 3 + (mode - 1)); if (!m_finite128((i128)a + a)) a = a / 2; } else if (!m_finite128((i128)a + a)) a /= 2; break;
    case SH_add_isnan: if (mode) b = fin_clamp(T - a); break;
    case SH_sub_isnan: if (mode) b = fin_clamp((i128)a - T); break;
    case SH_loop_add: case SH_loop_sub: {
      // step b of magnitude < 2^58, start chosen so that only the last step can leave the range
      b = (int64_t)((i128)b / 32); if (b == 0) b = 1; c = n;
      i128 tot = (i128)b * n; i128 start = (sh == SH_loop_add) ? T - tot : T + tot;
      if (!mode) start = a; a = fin_clamp(start); break; }
    case SH_chain: if (mode == 1) b = fin_clamp(T - a); else if (mode >= 2) { if (m_finite128((i128)a + b)) c = fin_clamp((i128)a + b - T); } break;
    case SH_add3: if (mode == 1) b = fin_clamp(T - a); else if (mode >= 2) { if (m_finite128((i128)a + b)) c = fin_clamp(T - ((i128)a + b)); } break;
    case SH_add3r: if (mode == 1) c = fin_clamp(T - b); else if (mode >= 2) { if (m_finite128((i128)b + c)) a = fin_clamp(T - ((i128)b + c)); } break;
    case SH_addsub: if (mode) b = fin_clamp(T - a); break;
  }
  if (sh != SH_loop_add && sh != SH_loop_sub && sh != SH_chain && sh != SH_add3 && sh != SH_add3r) c = 0;
  if (sh == SH_dbl || sh == SH_tpl || sh == SH_sub_neg || sh == SH_addeq_self || sh == SH_subeq_self) b = 0;
  return { sh, a, b, c };
}
static Reg r_c01_shape({ "C01.shape", "C01", "rc",
  "call shapes in which the operator is inlined into a caller: operands whose signs the caller already tested (raw and fixed_t comparisons), x+x, x+x+x, x-(-x), x+=x and x-=x on the same object, isnan(a+b), accumulation loops acc+=step / acc-=step (n<=16), chained x+=b;x-=c, three-term sums; operands built to satisfy the guard with the exact result targeted at the range boundary; oracle: exact model step by step (a step whose operand is already NaN is outside the property and the case is skipped); non-trivial = a step overflows or the result is within 2^17 of +-MAXF",
  c01_shape_check, 28, c01_shape_decode, nullptr });

// ---- C01.const: generated programs in which one operand is a compile-time constant -------------
// The driver generates, from VERIF_SEED, a translation unit with constants K_i and the shapes
//   0: a + K   1: K + a   2: a - K   3: K - a   4: a += K   5: four-fold acc += K   6: isnan(a + K)
// and compiles it under every configuration (cutk_<cfg>.so). args = [index into the table, a].
static void c01_const_check(Ctx& ctx, const Args& a)
{
  if (a.size() != 2 || !m_finite128(a[1]) || ctx.cuts.empty() || !ctx.cuts[0].ktable || a[0] < 0 || a[0] >= ctx.cuts[0].nk) { ctx.skip(); return; }
  int idx = (int)a[0]; const Cut::KEntry& ke = ctx.cuts[0].ktable[idx]; int64_t K = ke.k, x = a[1]; MV e; bool isbool = false;
  MV X = MV::fin(x), KK = MV::fin(K);
  switch (ke.shape) {
    case 0: case 4: e = m_add(X, KK); break; case 1: e = m_add(KK, X); break; case 2: e = m_sub(X, KK); break; case 3: e = m_sub(KK, X); break;
    case 5: { MV acc = X; for (int i = 0; i < 4; ++i) acc = m_add(acc, KK); e = acc; break; }
    case 6: { MV r = m_add(X, KK); e = MV::fin(r.k == MV::NAN_ ? 1 : 0); isbool = true; break; }
    default: ctx.skip(); return;
  }
  if (e.k == MV::UNSPEC) { ctx.skip(); return; }
  static const char* sh[7] = { "a+K", "K+a", "a-K", "K-a", "a+=K", "4x acc+=K", "isnan(a+K)" }; ctx.cls(sh[ke.shape]);
  if (e.k == MV::NAN_ || (isbool && e.v == 1)) { ctx.cls("overflow"); ctx.nontriv(); } else if (!isbool && iabs128(e.v) >= (i128)MAXF - 131072) { ctx.cls("near-limit"); ctx.nontriv(); }
  for (size_t ci = 0; ci < ctx.cuts.size(); ++ci) {
    const Cut& cu = ctx.cuts[ci]; if (!cu.ktable || cu.nk <= idx || cu.ktable[idx].k != K || cu.ktable[idx].shape != ke.shape) { ctx.fail(ci, "generated constant tables differ between configurations (harness error)"); continue; }
    CallResult r = cut_call_k(cu, idx, x); ++ctx.executions;
    if (ctx.verbose()) ctx.case_calls.push_back(strf("%s %s(a=%" PRId64 ", K=%" PRId64 ") -> %" PRId64, cu.name.c_str(), ke.name, x, K, r.v));
    if (r.trap) { ctx.fail(ci, strf("%s with K=%" PRId64 ", a=%" PRId64 " did not return: %s", sh[ke.shape], K, x, g_trap_why)); continue; }
    bool ok = e.k == MV::NAN_ ? m_isnan(r.v) : r.v == (int64_t)e.v;
    if (!ok) ctx.fail(ci, strf("%s with compile-time constant K=%" PRId64 ", a=%" PRId64 " = %" PRId64 ", expected %s", sh[ke.shape], K, x, r.v, e.k == MV::NAN_ ? "NaN" : i128s(e.v).c_str()));
  }
}
static Args c01_const_decode(Ctx& ctx, Dec& d)
{
  int nk = ctx.cuts.empty() || !ctx.cuts[0].ktable ? 1 : ctx.cuts[0].nk; int idx = (int)d.range(0, nk - 1); int64_t a = dec_raw(d); int mode = (int)d.range(0, 3); int ti = (int)d.range(0, kNAddTargets - 1); int dl = (int)d.range(-3, 3);
  if (mode && ctx.cuts[0].ktable) { const Cut::KEntry& ke = ctx.cuts[0].ktable[idx]; i128 T = kAddTargets[ti] + dl, K = ke.k;
    switch (ke.shape) { case 0: case 1: case 4: case 6: a = fin_clamp(T - K); break; case 2: a = fin_clamp(T + K); break; case 3: a = fin_clamp(K - T); break; case 5: a = fin_clamp(T - 4 * K); break; } }
  return { idx, a };
}
static Reg r_c01_const({ "C01.const", "C01", "rc",
  "generated programs: a translation unit generated from VERIF_SEED with compile-time constant operands K_i (boundary, power-of-two, small and random constants) in the shapes a+K, K+a, a-K, K-a, a+=K, four-fold acc+=K, isnan(a+K), compiled under every configuration; the run-time operand a is result-targeted (a solved so that the exact result is a range boundary +-3); oracle: exact model; non-trivial = the exact result leaves the range or lies within 2^17 of the limit",
  c01_const_check, 16, c01_const_decode, nullptr });

// ---- C01.expr / C08.prog: generated expression programs ------------------------------------------
// args = [program index, a, b, c]. Kind 0 programs use only + and -: the harness interprets the same
// postfix string on the exact model and demands the exact result (or NaN) from every build. Kind 1
// programs mix * / - abs floor: they are compared across builds only (C08), and only when no build
// saw a NaN intermediate (later steps are then outside every property).
static MV expr_model(const char* pf, const int64_t* ks, int nks, int64_t a, int64_t b, int64_t c)
{
  MV st[32]; int n = 0; const char* p = pf;
  while (*p) {
    while (*p == ' ') ++p; if (!*p) break;
    if (*p == 'a' || *p == 'b' || *p == 'c') { st[n++] = MV::fin(*p == 'a' ? a : *p == 'b' ? b : c); ++p; }
    else if (*p == 'k') { int i = atoi(p + 1); st[n++] = MV::fin(i < nks ? ks[i] : 0); ++p; while (*p >= '0' && *p <= '9') ++p; }
    else if (*p == '+' || *p == '-') { MV y = st[--n], x = st[--n]; st[n++] = *p == '+' ? m_add(x, y) : m_sub(x, y); ++p; }
    else return MV::unspec();
  }
  return n == 1 ? st[0] : MV::unspec();
}
static void c01_expr_check(Ctx& ctx, const Args& a)
{
  if (a.size() != 4 || ctx.cuts.empty() || !ctx.cuts[0].ptable || a[0] < 0 || a[0] >= ctx.cuts[0].np || !m_finite128(a[1]) || !m_finite128(a[2]) || !m_finite128(a[3])) { ctx.skip(); return; }
  int idx = (int)a[0]; const Cut::PEntry& pe = ctx.cuts[0].ptable[idx]; if (pe.kind != 0) { ctx.skip(); return; }
  MV e = expr_model(pe.postfix, ctx.cuts[0].kconsts, ctx.cuts[0].nkc, a[1], a[2], a[3]);
  if (e.k == MV::UNSPEC) { ctx.skip(); return; }      // an earlier step already overflowed: later steps are outside the property
  if (e.k == MV::NAN_) { ctx.cls("overflow"); ctx.nontriv(); } else if (iabs128(e.v) >= (i128)MAXF - 131072) { ctx.cls("near-limit"); ctx.nontriv(); } else ctx.cls("interior");
  for (size_t ci = 0; ci < ctx.cuts.size(); ++ci) {
    const Cut& cu = ctx.cuts[ci]; if (!cu.ptable || cu.np <= idx || strcmp(cu.ptable[idx].postfix, pe.postfix)) { ctx.fail(ci, "generated program tables differ between configurations (harness error)"); continue; }
    ProgResult r = cut_call_p(cu, idx, a[1], a[2], a[3]); ++ctx.executions;
    if (ctx.verbose()) ctx.case_calls.push_back(strf("%s [%s](a=%" PRId64 ", b=%" PRId64 ", c=%" PRId64 ") -> %" PRId64, cu.name.c_str(), pe.postfix, a[1], a[2], a[3], r.v));
    if (r.trap) { ctx.fail(ci, strf("program [%s] did not return: %s", pe.postfix, g_trap_why)); continue; }
    bool ok = e.k == MV::NAN_ ? m_isnan(r.v) : r.v == (int64_t)e.v;
    if (!ok) ctx.fail(ci, strf("generated expression [%s] with a=%" PRId64 ", b=%" PRId64 ", c=%" PRId64 " = %" PRId64 ", expected %s", pe.postfix, a[1], a[2], a[3], r.v, e.k == MV::NAN_ ? "NaN" : i128s(e.v).c_str()));
  }
}
static Args c01_expr_decode(Ctx& ctx, Dec& d)
{
  int np = ctx.cuts.empty() || !ctx.cuts[0].ptable ? 1 : ctx.cuts[0].np; int idx = (int)d.range(0, np / 2 > 0 ? np / 2 - 1 : 0);   // kind 0 programs come first
  int cls = (int)d.range(0, 2); int bits = cls == 0 ? 63 : cls == 1 ? 62 : 61;
  int64_t a = dec_raw(d, bits), b = dec_raw(d, bits), c = dec_raw(d, bits); int mode = (int)d.range(0, 3); int ti = (int)d.range(0, kNAddTargets - 1); int dl = (int)d.range(-3, 3);
  if (mode && ctx.cuts[0].ptable) { // solve one operand so that the whole expression lands on a boundary (the expression is affine in each variable)
    const Cut::PEntry& pe = ctx.cuts[0].ptable[idx]; int which = mode - 1; int64_t v[3] = { a, b, c }; v[which] = 0;
    // evaluate the affine form: value(0) and value(1) in 128-bit without range checks
    auto raw_eval = [&](int64_t x0, int64_t x1, int64_t x2) { i128 st[32]; int n = 0; const char* p = pe.postfix; while (*p) { while (*p == ' ') ++p; if (!*p) break; if (*p == 'a') { st[n++] = x0; ++p; } else if (*p == 'b') { st[n++] = x1; ++p; } else if (*p == 'c') { st[n++] = x2; ++p; } else if (*p == 'k') { int i = atoi(p + 1); st[n++] = i < ctx.cuts[0].nkc ? ctx.cuts[0].kconsts[i] : 0; ++p; while (*p >= '0' && *p <= '9') ++p; } else { i128 y = st[--n], x = st[--n]; st[n++] = *p == '+' ? x + y : x - y; ++p; } } return n ? st[0] : (i128)0; };
    i128 f0 = raw_eval(v[0], v[1], v[2]); v[which] = 1; i128 f1 = raw_eval(v[0], v[1], v[2]); i128 slope = f1 - f0;
    if (slope != 0) { i128 T = kAddTargets[ti] + dl; i128 x = (T - f0) / slope; if (x > (i128)MAXF) x = MAXF; if (x < -(i128)MAXF) x = -(i128)MAXF; (which == 0 ? a : which == 1 ? b : c) = (int64_t)x; }
  }
  return { idx, a, b, c };
}
static Reg r_c01_expr({ "C01.expr", "C01", "rc",
  "generated programs: 40 random expression trees per VERIF_SEED over three run-time operands and the generated constants with + and - (depth 2..4), compiled as straight-line code under every configuration; one operand is solved so that the whole (affine) expression lands on a range boundary +-3; oracle: the same postfix string interpreted on the exact model (a step after the first overflow is outside the property: skipped); non-trivial = the exact result overflows or lies within 2^17 of the limit",
  c01_expr_check, 24, c01_expr_decode, nullptr });

static void c08_prog_check(Ctx& ctx, const Args& a)
{
  if (a.size() != 4 || ctx.cuts.empty() || !ctx.cuts[0].ptable || a[0] < 0 || a[0] >= ctx.cuts[0].np || !m_finite128(a[1]) || !m_finite128(a[2]) || !m_finite128(a[3])) { ctx.skip(); return; }
  int idx = (int)a[0]; const Cut::PEntry& pe = ctx.cuts[0].ptable[idx];
  int64_t ref = 0; bool have = false, anynan = false, anyclean = false; size_t refci = 0; std::vector<ProgResult> rs(ctx.cuts.size());
  for (size_t ci = 0; ci < ctx.cuts.size(); ++ci) {
    const Cut& cu = ctx.cuts[ci]; if (!cu.ptable || cu.np <= idx) { ctx.skip(); return; }
    rs[ci] = cut_call_p(cu, idx, a[1], a[2], a[3]); ++ctx.executions;
    if (rs[ci].trap) { ctx.fail(ci, strf("program [%s] did not return: %s", pe.postfix, g_trap_why)); return; }
    if (rs[ci].flag) anynan = true; else anyclean = true;
  }
  if (anynan && !anyclean) { ctx.cls("NaN-intermediate(not compared)"); return; }
  ctx.cls(pe.kind ? "mixed-operators" : "add-sub"); ctx.nontriv();
  for (size_t ci = 0; ci < ctx.cuts.size(); ++ci) {
    if (anynan && anyclean && rs[ci].flag) { ctx.fail(ci, strf("program [%s] (a=%" PRId64 ", b=%" PRId64 ", c=%" PRId64 ") meets a NaN intermediate on %s but not on other builds", pe.postfix, a[1], a[2], a[3], ctx.cuts[ci].name.c_str())); return; }
    if (!have) { have = true; ref = rs[ci].v; refci = ci; }
    else if (rs[ci].v != ref) ctx.fail(ci, strf("program [%s] (a=%" PRId64 ", b=%" PRId64 ", c=%" PRId64 ") = %" PRId64 " on %s but %" PRId64 " on %s", pe.postfix, a[1], a[2], a[3], rs[ci].v, ctx.cuts[ci].name.c_str(), ref, ctx.cuts[refci].name.c_str()));
  }
}
static Args c08_prog_decode(Ctx& ctx, Dec& d)
{
  int np = ctx.cuts.empty() || !ctx.cuts[0].ptable ? 1 : ctx.cuts[0].np; int idx = (int)d.range(0, np - 1); int cls = (int)d.range(0, 3); int bits = cls == 0 ? 20 : cls == 1 ? 32 : cls == 2 ? 46 : 62;
  return { idx, dec_raw(d, bits), dec_raw(d, bits), dec_raw(d, bits) };
}
static Reg r_c08_prog({ "C08.prog", "C08", "rc",
  "generated programs: 80 random straight-line expression programs per VERIF_SEED (40 with + and -, 40 mixing + - * / unary minus abs floor; depth 2..4) over three run-time operands and generated constants, compiled under every configuration; operands in four magnitude classes; oracle (differential): identical result on every build whenever no build met a non-finite intermediate (NaN, or -2^63 from a floor outside its domain: later steps are then outside every property), and all builds agree on whether one occurred; non-trivial = compared cases",
  c08_prog_check, 20, c08_prog_decode, nullptr });
