// C16 mixed-type operators equal the promoted computation; C17 algebraic laws and histories.
#include "registry.hpp"
#include "model.hpp"

static int64_t fin_clamp(i128 v) { return v > (i128)MAXF ? MAXF : v < -(i128)MAXF ? -MAXF : (int64_t)v; }
static int named_entry(const std::string& k) { static std::unordered_map<std::string, int> cache; auto it = cache.find(k); if (it != cache.end()) return it->second; int id = entry_id_or_die(k); cache[k] = id; return id; }
static int typed_id(const char* prefix, int ti) { static int tab[2][10]; static bool init = false; if (!init) { for (int k = 0; k < NITYPES; ++k) { tab[0][k] = entry_id_or_die(std::string("mul_r_") + ITYPES[k].tok); tab[1][k] = entry_id_or_die(std::string("div_r_") + ITYPES[k].tok); } init = true; } return tab[prefix[0] == 'd'][ti]; }
static const char* kOpName[4] = { "add", "sub", "mul", "div" };
static const int kOpFF[4] = { E_add, E_sub, E_mul, E_div };

// ================================================================ C16 integral operand
// args: op(0..3), form(0: a op t, 1: t op a, 2: a op= t), type, a, n
static void c16_int_check(Ctx& ctx, const Args& a)
{
  if (a.size() != 5 || a[0] < 0 || a[0] > 3 || a[1] < 0 || a[1] > 2 || a[2] < 0 || a[2] >= NITYPES || !m_finite128(a[3])) { ctx.skip(); return; }
  int op = (int)a[0], form = (int)a[1], ti = (int)a[2]; const IType& t = ITYPES[ti]; int64_t x = a[3]; i128 n = tval(t, a[4]);
  bool conv = m_int_in_range(n); int64_t fn = conv ? (int64_t)(n * 65536) : 0;
  bool exact_scalar = (op == 2) || (op == 3 && form != 1);     // fixed*int, int*fixed, fixed/int use the integer exactly
  if (!conv && !exact_scalar) { ctx.skip(); return; }           // t does not convert to fixed_t: outside the property
  static int idtab[4][3][10]; static bool idinit = false;
  if (!idinit) { for (int o = 0; o < 4; ++o) for (int f = 0; f < 3; ++f) for (int k = 0; k < NITYPES; ++k) idtab[o][f][k] = named_entry(f == 2 ? std::string(kOpName[o]) + "eq_" + ITYPES[k].tok : std::string(kOpName[o]) + (f == 0 ? "_r_" : "_l_") + ITYPES[k].tok); idinit = true; }
  int id = idtab[op][form][ti]; int idr = idtab[op][0][ti];
  ctx.cls(kOpName[op]); ctx.cls(form == 0 ? "a-op-t" : form == 1 ? "t-op-a" : "a-op=-t"); ctx.cls(t.tok);
  if (!conv) { ctx.cls("|t|>=2^31(exact-scalar)"); ctx.nontriv(); }
  if (n >= ((i128)1 << 63)) { ctx.cls("unsigned-t>=2^63"); ctx.nontriv(); }
  if ((op == 1 || op == 3) && form == 1) { ctx.cls("non-commutative-mirrored"); ctx.nontriv(); }
  if (n == 0 && op == 3) ctx.cls("zero-divisor");
  for (size_t ci = 0; ci < ctx.cuts.size(); ++ci) {
    int64_t r; if (!ctx.call(ci, id, x, a[4], r)) continue;
    if (exact_scalar) {
      bool ok = op == 2 ? m_mul_scalar_ok(x, n, r) : m_div_scalar_ok(x, n, r);
      if (!ok) ctx.fail(ci, strf("%s(%" PRId64 ", %s) = %" PRId64 " is not the exact integer-scalar result", g_sigs[id].name, x, i128s(n).c_str(), r));
    } else {
      int64_t e; bool okc = form == 1 ? ctx.call(ci, kOpFF[op], fn, x, e) : ctx.call(ci, kOpFF[op], x, fn, e);
      if (okc && r != e && !(m_isnan(r) && m_isnan(e))) ctx.fail(ci, strf("%s(%" PRId64 ", %s) = %" PRId64 " but the same operation on fixed_t(%s) gives %" PRId64, g_sigs[id].name, x, i128s(n).c_str(), r, i128s(n).c_str(), e));
    }
    if (form == 2) { int64_t e2; if (ctx.call(ci, idr, x, a[4], e2) && e2 != r) ctx.fail(ci, strf("a %s= t leaves %" PRId64 " but a %s t is %" PRId64 " (a=%" PRId64 ", t=%s %s)", kOpName[op], r, kOpName[op], e2, x, t.tok, i128s(n).c_str())); }
  }
}
static Args c16_int_decode(Ctx&, Dec& d)
{
  int op = (int)d.range(0, 3), form = (int)d.range(0, 2), ti = (int)d.range(0, NITYPES - 1); int64_t x = dec_raw(d); int64_t n = dec_int(d, ITYPES[ti]); int mode = (int)d.range(0, 2); uint64_t u = d.u64();
  bool exact_scalar = (op == 2) || (op == 3 && form != 1);
  if (!exact_scalar || mode == 0) { // keep t convertible: fold into |n| <= 2^31-1 (by construction, no rejection)
    i128 nv = tval(ITYPES[ti], n); if (!m_int_in_range(nv)) { nv = nv % 2147483648LL; n = (int64_t)nv; if (!m_int_in_range(tval(ITYPES[ti], n))) n = (int64_t)(u % 1000); } }
  if (mode == 2) x = dec_raw(d, 47);
  if (mode == 1 && op == 2) { i128 nv = tval(ITYPES[ti], n); if (nv != 0) x = fin_clamp((((i128)1 << 63) - 1 + (int64_t)(u % 5) - 2) / nv); }   // product on the int64 limit
  return { op, form, ti, x, n };
}
static Reg r_c16_int({ "C16.int", "C16", "rc",
  "(finite raw a, t) for every integral type x {+,-,*,/} x {a op t, t op a, a op= t}; t kept convertible (|t| <= 2^31-1) except for fixed*integer / integer*fixed / fixed/integer where the full type range is used; oracle: result equals the same operator applied by the same build to a and fixed_t(t) (bit-for-bit; both-NaN counts as equal), the exact 128-bit scalar model for the integer-exact forms, and a op= t equals a op t; non-trivial = |t| >= 2^31, unsigned t >= 2^63, or a mirrored non-commutative form",
  c16_int_check, 24, c16_int_decode, nullptr });

// ================================================================ C16 float operand
// args: op, form(0 r,1 l,2 compound), a, bits
static void c16_f32_check(Ctx& ctx, const Args& a)
{
  if (a.size() != 4 || a[0] < 0 || a[0] > 3 || a[1] < 0 || a[1] > 2 || !m_finite128(a[2]) || a[3] < 0 || a[3] > 0xffffffffll) { ctx.skip(); return; }
  int op = (int)a[0], form = (int)a[1]; int64_t x = a[2]; float v = bits_f32((uint32_t)a[3]);
  if (!(std::fabs((double)v) < 2147483647.0)) { ctx.skip(); return; }     // does not convert: outside the property
  static int idtab[4][3]; static bool idinit = false;
  if (!idinit) { for (int o = 0; o < 4; ++o) for (int f = 0; f < 3; ++f) idtab[o][f] = named_entry(f == 2 ? std::string(kOpName[o]) + "eq_f32" : std::string(kOpName[o]) + (f == 0 ? "_r_f32" : "_l_f32")); idinit = true; }
  int id = idtab[op][form]; int idr = idtab[op][0];
  ctx.cls(kOpName[op]); ctx.cls(form == 0 ? "a-op-t" : form == 1 ? "t-op-a" : "a-op=-t");
  if (v != std::floor(v)) { ctx.cls("non-integral-float"); ctx.nontriv(); }
  if ((op == 1 || op == 3) && form == 1) { ctx.cls("non-commutative-mirrored"); ctx.nontriv(); }
  for (size_t ci = 0; ci < ctx.cuts.size(); ++ci) {
    int64_t fv, r, e; if (!ctx.call(ci, E_from_f32, a[3], fv) || m_isnan(fv)) continue;
    if (!ctx.call(ci, id, x, a[3], r)) continue;
    bool okc = form == 1 ? ctx.call(ci, kOpFF[op], fv, x, e) : ctx.call(ci, kOpFF[op], x, fv, e);
    if (okc && r != e && !(m_isnan(r) && m_isnan(e))) ctx.fail(ci, strf("%s(%" PRId64 ", %.9g) = %" PRId64 " but the same operation on fixed_t(t) = raw %" PRId64 " gives %" PRId64, g_sigs[id].name, x, (double)v, r, fv, e));
    if (form == 2) { int64_t e2; if (ctx.call(ci, idr, x, a[3], e2) && e2 != r) ctx.fail(ci, strf("a %s= t leaves %" PRId64 " but a %s t is %" PRId64 " (a=%" PRId64 ", t=%.9g)", kOpName[op], r, kOpName[op], e2, x, (double)v)); }
  }
}
static uint32_t conv_f32(Dec& d)
{
  int mode = (int)d.range(0, 3); uint32_t b = dec_f32(d); uint64_t u = d.u64(); float v = bits_f32(b);
  if (mode == 0 || !(std::fabs((double)v) < 2147483647.0)) { float f = (float)((int64_t)(u % 2001) - 1000) / (float)(1 << (u >> 32) % 8); return f32_bits(f); }
  return b;
}
static Args c16_f32_decode(Ctx&, Dec& d) { int op = (int)d.range(0, 3), form = (int)d.range(0, 2); int64_t x = d.flag() ? dec_raw(d) : dec_raw(d, 47); uint32_t b = conv_f32(d); return { op, form, x, (int64_t)b }; }
static Reg r_c16_f32({ "C16.f32", "C16", "rc",
  "(finite raw a, float t with |t| < 2^31-1) x {+,-,*,/} x {a op t, t op a, a op= t}; oracle: equals the same operator applied by the same build to a and fixed_t(t) bit-for-bit (both-NaN counts as equal) and a op= t equals a op t; non-trivial = non-integral t or a mirrored non-commutative form",
  c16_f32_check, 24, c16_f32_decode, nullptr });

// ================================================================ C16 double operand
// args: op, form(0: a op t, 1: t op a), a, bits
static void c16_f64_check(Ctx& ctx, const Args& a)
{
  if (a.size() != 4 || a[0] < 0 || a[0] > 3 || a[1] < 0 || a[1] > 1 || !m_finite128(a[2])) { ctx.skip(); return; }
  int op = (int)a[0], form = (int)a[1]; int64_t x = a[2]; volatile double t = bits_f64((uint64_t)a[3]);
  volatile double dx = (double)x / 65536.0;    // double(a): correctly rounded int64 -> double, exact scaling
  volatile double l = form == 0 ? dx : t, r = form == 0 ? t : dx, e;
  switch (op) { case 0: e = l + r; break; case 1: e = l - r; break; case 2: e = l * r; break; default: e = l / r; }
  static int idtab[4][2]; static bool idinit = false;
  if (!idinit) { for (int o = 0; o < 4; ++o) for (int f = 0; f < 2; ++f) idtab[o][f] = named_entry(std::string(kOpName[o]) + (f == 0 ? "_r_f64" : "_l_f64")); idinit = true; }
  int id = idtab[op][form];
  ctx.cls(kOpName[op]); ctx.cls(form == 0 ? "a-op-t" : "t-op-a");
  double tt = t; if (std::isnan(tt) || std::isinf(tt)) { ctx.cls("non-finite-double"); ctx.nontriv(); }
  if ((op == 1 || op == 3) && form == 1) { ctx.cls("non-commutative-mirrored"); ctx.nontriv(); }
  if (iabs128(x) > ((i128)1 << 53)) { ctx.cls("|raw|>2^53"); ctx.nontriv(); }
  double ee = e;
  for (size_t ci = 0; ci < ctx.cuts.size(); ++ci) {
    int64_t rb; if (!ctx.call(ci, id, x, a[3], rb)) continue;
    double got = bits_f64((uint64_t)rb);
    bool ok = (std::isnan(got) && std::isnan(ee)) || f64_bits(got) == f64_bits(ee);
    if (!ok) ctx.fail(ci, strf("%s(%" PRId64 ", %.17g) = %.17g, IEEE result on double(a) = %.17g is %.17g", g_sigs[id].name, x, tt, got, (double)dx, ee));
  }
}
static Args c16_f64_decode(Ctx&, Dec& d) { int op = (int)d.range(0, 3), form = (int)d.range(0, 1); int64_t x = dec_raw(d); uint64_t b = dec_f64(d); int mode = (int)d.range(0, 3); uint64_t u = d.u64(); if (mode == 0) b = f64_bits((double)((int64_t)(u % 200001) - 100000) / 64.0); return { op, form, x, (int64_t)b }; }
static Reg r_c16_f64({ "C16.f64", "C16", "rc",
  "(finite raw a, any double t incl. inf/NaN/subnormal) x {+,-,*,/} x {a op t, t op a}; oracle: the returned double has the bit pattern of the host IEEE-754 operation on double(a) = raw/2^16 (correctly rounded) and t in the written operand order (any NaN equals any NaN); non-trivial = non-finite t, |raw| > 2^53, or a mirrored non-commutative form",
  c16_f64_check, 20, c16_f64_decode, nullptr });

// ================================================================ C17 laws
// args: law, a, b, c, n
enum Law { L_COMM_ADD, L_COMM_MUL, L_SUB_NEG, L_SELF_SUB, L_IDENT, L_ADDSUB, L_ASSOC, L_NFOLD, L_MULDIV, L_MONO, L_COUNT };
static const char* kLawName[L_COUNT] = { "a+b==b+a", "a*b==b*a", "a-b==a+(-b)", "a-a==0", "a*1,a*0,a/1,a/a", "(a+b)-b==a", "(a+b)+c==a+(b+c)", "a*n==n-fold-sum", "(a*n)/n==a", "a<b=>a+c<=b+c" };
static void c17_law_check(Ctx& ctx, const Args& a)
{
  if (a.size() != 5 || a[0] < 0 || a[0] >= L_COUNT || !m_finite128(a[1]) || !m_finite128(a[2]) || !m_finite128(a[3])) { ctx.skip(); return; }
  int law = (int)a[0]; int64_t x = a[1], y = a[2], z = a[3], n = a[4];
  ctx.cls(kLawName[law]);
  auto near = [](i128 v) { return iabs128(v) >= (i128)MAXF - 131072; };
  bool pre = true;   // "no intermediate result is NaN", decided on the exact model, never on library outputs
  switch (law) {
    case L_ADDSUB: pre = m_finite128((i128)x + y); if (near((i128)x + y)) ctx.nontriv(); break;
    case L_ASSOC: pre = m_finite128((i128)x + y) && m_finite128((i128)y + z) && m_finite128((i128)x + y + z); if (near((i128)x + y) || near((i128)y + z) || near((i128)x + y + z)) ctx.nontriv(); break;
    case L_NFOLD: if (n < 0 || n > 4096 || z < 0 || z >= NITYPES || (i128)n > tmax(ITYPES[z])) { ctx.skip(); return; } pre = m_finite128((i128)x * n); if (near((i128)x * n) || n >= 1024) ctx.nontriv(); break;
    case L_MULDIV: if (n == 0 || z < 0 || z >= NITYPES || tval(ITYPES[z], n) != (i128)n) { ctx.skip(); return; } pre = m_finite128((i128)x * n); if (near((i128)x * n) || iabs128(n) >= 65536) ctx.nontriv(); break;
    case L_MONO: pre = x < y && m_finite128((i128)x + z) && m_finite128((i128)y + z); if (near((i128)x + z) || near((i128)y + z)) ctx.nontriv(); break;
    case L_IDENT: if (iabs128(x) >= ((i128)1 << 47)) { ctx.skip(); return; } if (iabs128(x) >= ((i128)1 << 40)) ctx.nontriv(); break;
    case L_COMM_ADD: case L_SUB_NEG: if (!m_finite128((i128)x + (law == L_SUB_NEG ? -(i128)y : (i128)y)) || near((i128)x + y)) ctx.nontriv(); break;
    case L_COMM_MUL: if (iabs128((i128)x * y) >= ((i128)1 << 62)) ctx.nontriv(); break;
    default: break;
  }
  ctx.cls(pre ? "precondition-true" : "precondition-false");
  if (!pre) return;    // law not applicable (counted, not asserted)
  for (size_t ci = 0; ci < ctx.cuts.size(); ++ci) {
    int64_t p, q, r, s;
    switch (law) {
      case L_COMM_ADD: if (ctx.call(ci, E_add, x, y, p) && ctx.call(ci, E_add, y, x, q) && p != q) ctx.fail(ci, strf("a+b = %" PRId64 " but b+a = %" PRId64 " (a=%" PRId64 ", b=%" PRId64 ")", p, q, x, y)); break;
      case L_COMM_MUL: if (ctx.call(ci, E_mul, x, y, p) && ctx.call(ci, E_mul, y, x, q) && p != q) ctx.fail(ci, strf("a*b = %" PRId64 " but b*a = %" PRId64 " (a=%" PRId64 ", b=%" PRId64 ")", p, q, x, y)); break;
      case L_SUB_NEG: if (ctx.call(ci, E_sub, x, y, p) && ctx.call(ci, E_neg, y, q) && ctx.call(ci, E_add, x, q, r) && p != r) ctx.fail(ci, strf("a-b = %" PRId64 " but a+(-b) = %" PRId64 " (a=%" PRId64 ", b=%" PRId64 ")", p, r, x, y)); break;
      case L_SELF_SUB: if (ctx.call(ci, E_sub, x, x, p) && p != 0) ctx.fail(ci, strf("a-a = %" PRId64 " (a=%" PRId64 ")", p, x)); break;
      case L_IDENT: {
        int64_t one = ctx.cuts[ci].kone;
        if (ctx.call(ci, E_mul, x, one, p) && p != x) ctx.fail(ci, strf("a*1_fix = %" PRId64 " (a=%" PRId64 ")", p, x));
        if (ctx.call(ci, E_mul_r_i32, x, 1, p) && p != x) ctx.fail(ci, strf("a*1 = %" PRId64 " (a=%" PRId64 ")", p, x));
        if (ctx.call(ci, E_mul, x, 0, p) && p != 0) ctx.fail(ci, strf("a*0_fix = %" PRId64 " (a=%" PRId64 ")", p, x));
        if (ctx.call(ci, E_mul_r_i32, x, 0, p) && p != 0) ctx.fail(ci, strf("a*0 = %" PRId64 " (a=%" PRId64 ")", p, x));
        if (ctx.call(ci, E_div, x, one, p) && p != x) ctx.fail(ci, strf("a/1_fix = %" PRId64 " (a=%" PRId64 ")", p, x));
        if (ctx.call(ci, E_div_r_i32, x, 1, p) && p != x) ctx.fail(ci, strf("a/1 = %" PRId64 " (a=%" PRId64 ")", p, x));
        if (x != 0 && ctx.call(ci, E_div, x, x, p) && p != one) ctx.fail(ci, strf("a/a = %" PRId64 " (a=%" PRId64 ")", p, x));
        break; }
      case L_ADDSUB: if (ctx.call(ci, E_add, x, y, p) && ctx.call(ci, E_sub, p, y, q) && q != x) ctx.fail(ci, strf("(a+b)-b = %" PRId64 " (a=%" PRId64 ", b=%" PRId64 ", a+b=%" PRId64 ")", q, x, y, p)); break;
      case L_ASSOC: if (ctx.call(ci, E_add, x, y, p) && ctx.call(ci, E_add, p, z, q) && ctx.call(ci, E_add, y, z, r) && ctx.call(ci, E_add, x, r, s) && q != s) ctx.fail(ci, strf("(a+b)+c = %" PRId64 " but a+(b+c) = %" PRId64 " (a=%" PRId64 ", b=%" PRId64 ", c=%" PRId64 ")", q, s, x, y, z)); break;
      case L_NFOLD: {
        if (!ctx.call(ci, typed_id("mul_r_", (int)z), x, n, p)) break;
        int64_t acc = 0; bool ok = true; for (int64_t i = 0; i < n && ok; ++i) ok = ctx.call(ci, E_add, acc, x, acc);
        if (ok && acc != p) ctx.fail(ci, strf("a*n = %" PRId64 " but a added %" PRId64 " times = %" PRId64 " (a=%" PRId64 ")", p, n, acc, x));
        break; }
      case L_MULDIV: if (ctx.call(ci, typed_id("mul_r_", (int)z), x, n, p) && ctx.call(ci, typed_id("div_r_", (int)z), p, n, q) && q != x) ctx.fail(ci, strf("(a*n)/n = %" PRId64 " (a=%" PRId64 ", n=%" PRId64 ", a*n=%" PRId64 ")", q, x, n, p)); break;
      case L_MONO: if (ctx.call(ci, E_add, x, z, p) && ctx.call(ci, E_add, y, z, q) && ctx.call(ci, E_le, p, q, r) && r != 1) ctx.fail(ci, strf("a<b but a+c = %" PRId64 " > b+c = %" PRId64 " (a=%" PRId64 ", b=%" PRId64 ", c=%" PRId64 ")", p, q, x, y, z)); break;
    }
  }
}
static Args c17_law_decode(Ctx&, Dec& d)
{
  int law = (int)d.range(0, L_COUNT - 1); int cls = (int)d.range(0, 3); int bits = cls == 0 ? 63 : cls == 1 ? 62 : cls == 2 ? 47 : 30;
  int64_t x = dec_raw(d, bits), y = dec_raw(d, bits), z = dec_raw(d, bits); int mode = (int)d.range(0, 2); uint64_t u = d.u64(); int dl = (int)d.range(-2, 2); bool neg = d.flag();
  int64_t n = 0; i128 T = (i128)MAXF + dl; if (neg) T = -T;
  switch (law) {
    case L_NFOLD: { int ti = (int)((u >> 48) % NITYPES); z = ti; i128 cap = tmax(ITYPES[ti]) < 4096 ? tmax(ITYPES[ti]) : 4096; n = (int64_t)(mode == 0 ? u % 17 : (u % 4097) % (uint64_t)(cap + 1)); if ((u >> 40) % 4 == 0) n = (int64_t)cap - (int64_t)(u % 3); if (n < 0) n = 0; if (mode == 2 && n) x = fin_clamp(T / n); break; }
    case L_MULDIV: { int ti = (int)((u >> 48) % NITYPES); z = ti; n = mode == 0 ? (int64_t)(u % 33) - 16 : (int64_t)(int32_t)(u >> 8) >> (u % 32);
      if ((u >> 44) % 4 == 0) n = dec_int(d, ITYPES[ti]);
      i128 nv = tval(ITYPES[ti], n); if (nv > (i128)INT64_MAX) nv = tmax(ITYPES[ti]) >> 1; n = (int64_t)nv; if (n == 0) n = 1; if (mode == 2) x = fin_clamp(T / n); break; }
    case L_ADDSUB: if (mode) y = fin_clamp(T - x); break;
    case L_ASSOC: if (mode == 1) y = fin_clamp(T - x); else if (mode == 2 && m_finite128((i128)x + y)) z = fin_clamp(T - ((i128)x + y)); break;
    case L_MONO: if (x > y) std::swap(x, y); if (mode) z = fin_clamp(T - y); break;
    case L_IDENT: x = dec_raw(d, 47); break;
    case L_COMM_ADD: case L_SUB_NEG: if (mode) y = fin_clamp(law == L_SUB_NEG ? (i128)x - T : T - x); break;
    default: break;
  }
  return { law, x, y, z, n };
}
static Reg r_c17_law({ "C17.laws", "C17", "rc",
  "triples of finite raw values in four magnitude classes (|raw| < 2^63, 2^62, 2^47, 2^30) and integers n, per law: commutativity of + and * (bit-for-bit), a-b==a+(-b), a-a==0, identities for |a|<2^31 (a*1, a*0, a/1 with fixed and integer operands, a/a==1), and under the precondition that no intermediate is NaN IN THE EXACT MODEL: (a+b)-b==a, associativity of +, a*n == n-fold sum (0<=n<=4096), (a*n)/n==a, a<b => a+c<=b+c; the scalar laws use n of every integral type (int8..uint64, long long, unsigned long long; the third argument carries the type); operands are targeted so that intermediates land at +-MAXF+-2; oracle: relations between library outputs only; non-trivial = an intermediate within 2^17 of +-MAXF (or beyond), n >= 1024 / |n| >= 65536, |a| >= 2^40 for the identities",
  c17_law_check, 32, c17_law_decode, nullptr });

// ================================================================ C17 histories
// args: start, then (op, operand) pairs; op: 0 +x, 1 -x, 2 *n (int64), 3 /n (int64), 4 *n (int32), 5 /n (int32)
static void c17_hist_check(Ctx& ctx, const Args& a)
{
  if (a.size() < 3 || a.size() % 2 == 0 || a.size() > 1 + 2 * 64 || !m_finite128(a[0])) { ctx.skip(); return; }
  size_t steps = (a.size() - 1) / 2;
  for (size_t i = 0; i < steps; ++i) { int64_t op = a[1 + 2 * i], v = a[2 + 2 * i]; if (op < 0 || op > 5 || ((op <= 1) && !m_finite128(v)) || (op >= 4 && (v < INT32_MIN || v > INT32_MAX))) { ctx.skip(); return; } }
  static const int ids[6] = { E_addeq, E_subeq, E_muleq_i64, E_diveq_i64, E_mul_r_i32, E_div_r_i32 };
  // model run
  std::vector<MV> mv(steps); MV cur = MV::fin(a[0]); size_t valid = 0; bool near = false, muldiv = false; int64_t lastmul = 0; bool sawmul = false;
  for (size_t i = 0; i < steps; ++i) {
    int64_t op = a[1 + 2 * i], v = a[2 + 2 * i];
    if (cur.k != MV::FIN) break;
    switch (op) { case 0: cur = m_wrap(cur.v + v); break; case 1: cur = m_wrap(cur.v - v); break; case 2: case 4: cur = m_wrap(cur.v * v); sawmul = true; lastmul = v; break; default: if (v == 0) cur = MV::nan(); else { cur = MV::fin(cur.v / v); if (sawmul && v == lastmul) muldiv = true; } }
    mv[i] = cur; valid = i + 1;
    if (cur.k == MV::FIN && iabs128(cur.v) >= (i128)MAXF - 131072) near = true;
  }
  if (near || (steps >= 8 && muldiv) || (valid < steps)) ctx.nontriv();
  ctx.cls(steps >= 8 ? "len>=8" : "len<8"); if (muldiv) ctx.cls("has *n .. /n"); if (valid < steps || (valid && mv[valid - 1].k == MV::NAN_)) ctx.cls("model-reaches-NaN"); else ctx.cls("all-finite");
  for (size_t ci = 0; ci < ctx.cuts.size(); ++ci) {
    int64_t acc = a[0];
    for (size_t i = 0; i < valid; ++i) {
      int64_t op = a[1 + 2 * i], v = a[2 + 2 * i], r;
      if (!ctx.call(ci, ids[op], acc, v, r)) break;
      bool ok = mv[i].k == MV::NAN_ ? m_isnan(r) : r == (int64_t)mv[i].v;
      if (!ok) { ctx.fail(ci, strf("history step %zu (%s %" PRId64 " on state %" PRId64 ") gives %" PRId64 ", exact model gives %s", i + 1, g_sigs[ids[op]].name, v, acc, r, mv[i].k == MV::NAN_ ? "NaN" : i128s(mv[i].v).c_str())); break; }
      acc = r;
    }
  }
}
static Args c17_hist_decode(Ctx&, Dec& d)
{
  int cls = (int)d.range(0, 3); int bits = cls == 0 ? 20 : cls == 1 ? 40 : cls == 2 ? 58 : 63; int len = (int)d.range(1, 24);
  Args a; a.push_back(dec_raw(d, bits)); std::vector<int64_t> muls;
  for (int i = 0; i < len; ++i) {
    int op = (int)d.range(0, 5); int64_t x = dec_raw(d, bits); uint64_t u = d.u64(); int64_t v;
    if (op <= 1) v = x;
    else { v = (u % 4 == 0) ? (int64_t)(int32_t)(u >> 16) >> ((u >> 8) % 32) : (int64_t)((u >> 8) % 33) - 16; if (v == 0 && (u >> 4) % 8) v = 3;
           if ((op == 3 || op == 5) && !muls.empty() && (u >> 2) % 2) v = muls[(u >> 40) % muls.size()];
           if (op == 2 || op == 4) muls.push_back(v); }
    a.push_back(op); a.push_back(v);
  }
  return a;
}
static Reg r_c17_hist({ "C17.hist", "C17", "rc",
  "operation histories of length 1..24 over one accumulator built from += x, -= x, *= n, /= n (int64 and int32 scalars), in four magnitude classes so that about half of the histories stay finite; a /n preferentially reuses the n of an earlier *n; the library state is compared with the exact 128-bit model after every step until the model first reports NaN (that step must give NaN; later steps are outside the property); the whole sequence shrinks as one value; non-trivial = an intermediate within 2^17 of +-MAXF, the model reaches NaN, or >= 8 steps containing *n followed by /n with the same n",
  c17_hist_check, 180, c17_hist_decode, nullptr });
