// Mapping of a libFuzzer input (bytes) to one generated case: shared by the fuzz target and by
// `fmcheck decode-fuzz`, which turns a saved artifact into an ordinary replayable case.
#pragma once
#include "registry.hpp"
#include <sstream>
static inline std::vector<const Clause*> fuzz_clauses(const std::string& list)
{
  std::vector<const Clause*> v; std::istringstream ss(list); std::string t;
  while (std::getline(ss, t, ',')) for (const Clause& c : registry()) if (t == c.id && c.decode) v.push_back(&c);
  return v;
}
static inline bool fuzz_select(Ctx& ctx, const std::vector<const Clause*>& cls, const uint8_t* data, size_t size, const Clause*& cl, Args& args)
{
  if (cls.empty() || size < 8) return false;
  uint64_t w[200]; memset(w, 0, sizeof w); memcpy(w, data, size < sizeof w ? size : sizeof w);
  Dec d(w, 200);
  cl = cls[d.range(0, (int64_t)cls.size() - 1)];
  args = cl->decode(ctx, d);
  return true;
}
