#!/usr/bin/env python3
"""Driver of the fixed_math verification machinery (property-based testing and fuzzing).

  verif.py setup                         build the harness (offline, from files on disk)
  verif.py check <ID> --tier quick|thorough
  verif.py replay <file>                 re-run one saved failing case through the plain replay path
  verif.py clauses                       list the clauses and which property they serve

Environment: VERIF_SEED (default 1), VERIF_REPO (default /repo), VERIF_JOBS (default: all cores).
Exit status of `check`: 0 = property held on everything explored (listed known findings are
reported as KNOWN-FINDING lines), 1 = violation (a `VIOLATION property=<id> replay=<path>` line
is printed), 2 = the machinery itself failed (build error, degenerate generator, flaky replay).
"""
import hashlib, json, os, shutil, subprocess, sys, time, glob, re, tempfile
from concurrent.futures import ThreadPoolExecutor

ROOT = os.path.dirname(os.path.abspath(__file__))
sys.path.insert(0, ROOT)
REPO = os.environ.get('VERIF_REPO', '/repo')
JOBS = int(os.environ.get('VERIF_JOBS', str(os.cpu_count() or 8)))
BUILD = os.path.join(ROOT, 'build')
OUTBASE = os.environ.get('VERIF_OUT', ROOT)     # evidence/ and replays/ go here (mutation runs redirect it)
INC = os.path.join(REPO, 'fixed_lib', 'include')
SRC = os.path.join(REPO, 'fixed_lib', 'src')
GUARD = 'FIXEDMATH_VERIF'
SCALE = float(os.environ.get('VERIF_SCALE', '1') or 1)      # mutation sweeps run the quick tier at a fraction of its budget
NOEXTRA = bool(os.environ.get('VERIF_NOEXTRA'))            # ... and without the fuzz / consteval engines

def log(*a):
    print(*a, file=sys.stderr, flush=True)

def sha_files(paths, extra=''):
    h = hashlib.sha256(extra.encode())
    for p in sorted(paths):
        h.update(p.encode()); h.update(b'\0')
        with open(p, 'rb') as f: h.update(f.read())
    return h.hexdigest()[:16]

def repo_files():
    out = []
    for base in (INC, SRC):
        for d, _, fs in os.walk(base):
            for f in fs: out.append(os.path.join(d, f))
    return out

def run(cmd, **kw):
    return subprocess.run(cmd, stdout=subprocess.PIPE, stderr=subprocess.STDOUT, text=True, **kw)

# ----------------------------------------------------------------------------- harness build
def harness_sources():
    return sorted(glob.glob(os.path.join(ROOT, 'harness', '*.cc')))

def build_harness():
    srcs = harness_sources()
    deps = srcs + glob.glob(os.path.join(ROOT, 'harness', '*.hpp')) + [os.path.join(ROOT, 'cut', 'entries.def'), os.path.join(ROOT, 'cut', 'cut_api.h')]
    hsh = sha_files(deps, 'harness-v1')
    out = os.path.join(BUILD, 'harness-' + hsh)
    exe = os.path.join(out, 'fmcheck')
    if os.path.exists(exe): return exe
    os.makedirs(out, exist_ok=True)
    t0 = time.time()
    def cc(src):
        obj = os.path.join(out, os.path.basename(src)[:-3] + '.o')
        r = run(['g++', '-std=gnu++17', '-O2', '-g0', '-fno-strict-aliasing', '-c', src, '-o', obj])
        if r.returncode != 0: raise SystemExit('harness build failed: ' + src + '\n' + r.stdout)
        return obj
    with ThreadPoolExecutor(JOBS) as ex: objs = list(ex.map(cc, srcs))
    r = run(['g++', '-rdynamic', '-o', exe + '.tmp'] + objs + ['-lrapidcheck', '-ldl', '-lm'])
    if r.returncode != 0: raise SystemExit('harness link failed\n' + r.stdout)
    os.replace(exe + '.tmp', exe)
    for d in glob.glob(os.path.join(BUILD, 'harness-*')):
        if d != out: shutil.rmtree(d, ignore_errors=True)
    log('built harness in %.1fs -> %s' % (time.time() - t0, exe))
    return exe

# ----------------------------------------------------------------------------- CUT configurations
STDS = {'gnu++17': ['-std=gnu++17'], 'gnu++20-ndebug': ['-std=gnu++20', '-DNDEBUG'], 'c++17-ndebug': ['-std=c++17', '-DNDEBUG'], 'c++17': ['-std=c++17'], 'c++17-abacus': ['-std=c++17', '-DFIXEDMATH_ENABLE_SQRT_ABACUS_ALGO'], 'c++20': ['-std=c++20'], 'c++2b': ['-std=c++2b']}
R_ALL = ['%s-O%d-%s' % (cc, o, s) for cc in ('g++', 'clang++') for o in (0, 1, 2, 3) for s in ('c++17', 'c++17-abacus', 'c++20', 'c++2b')] + ['g++-O2-gnu++17', 'clang++-O1-gnu++17', 'clang++-O2-gnu++20-ndebug', 'g++-O2-c++17-ndebug', 'g++-Os-c++17', 'clang++-Os-c++20']
R_QUICK = ['g++-O0-c++17', 'g++-O2-c++17-abacus', 'g++-O1-c++20', 'g++-O3-c++2b',
           'clang++-O0-c++17-abacus', 'clang++-O1-c++17', 'clang++-O2-c++2b', 'clang++-O3-c++20',
           'g++-O2-gnu++17', 'clang++-O2-gnu++20-ndebug', 'g++-Os-c++17']     # dialect, NDEBUG and -Os builds (round 4 of the seeded changes)
S_ALL = ['S-%s-O%d-%s' % (cc, o, s) for cc in ('g++', 'clang++') for o in (0, 1) for s in ('c++17', 'c++17-abacus')] + ['S-g++-O2-c++20', 'S-clang++-O2-c++2b', 'S-g++-O3-c++17', 'S-clang++-O3-c++17-abacus']
S_QUICK = ['S-g++-O0-c++17', 'S-g++-O1-c++17-abacus', 'S-clang++-O0-c++17-abacus', 'S-clang++-O1-c++17']
SAN = '-fsanitize=signed-integer-overflow,shift,integer-divide-by-zero,float-cast-overflow,bounds,bool,builtin,unreachable,return'

def cfg_cmd(name, outdir):
    san = name.startswith('S-')
    n = name[2:] if san else name
    m = re.match(r'(g\+\+|clang\+\+)-O(\d|s)-(.*)$', n)
    cc, opt, std = m.group(1), m.group(2), m.group(3)
    so = os.path.join(outdir, 'cut_%s.so' % name)
    cmd = [cc] + STDS[std] + ['-O' + opt, '-fPIC', '-shared', '-fvisibility=hidden', '-w', '-D%s=1' % GUARD,
           '-I' + INC, '-I' + os.path.join(ROOT, 'cut'), '-DCUT_CONFIG="%s"' % name]
    srcs = [os.path.join(ROOT, 'cut', 'cut_main.cc'), os.path.join(SRC, 'fixed_math.cc')]
    if san:
        cmd += [SAN, '-D_GLIBCXX_ASSERTIONS']
        srcs.append(os.path.join(outdir, 'ub_handlers.o'))
    return cmd + srcs + ['-o', so], so

def cut_dir():
    deps = repo_files() + glob.glob(os.path.join(ROOT, 'cut', '*'))
    hsh = sha_files(deps, 'cut-v1')
    return os.path.join(BUILD, 'cut-' + hsh)

def build_cuts(names):
    """Build (or reuse) cut_<cfg>.so for the current working tree of REPO. Returns list of paths."""
    out = cut_dir(); os.makedirs(out, exist_ok=True)
    # keep only the two most recent tree hashes (disk)
    # keep the two most recent other trees, and never delete one that was used in the last 30 minutes (another
    # check - e.g. a mutation run on a different tree - may be using it right now)
    olds = sorted([d for d in glob.glob(os.path.join(BUILD, 'cut-*')) if d != out], key=os.path.getmtime)
    for d in olds[:-2]:
        if time.time() - os.path.getmtime(d) > 1800: shutil.rmtree(d, ignore_errors=True)
    todo = [n for n in names if not os.path.exists(os.path.join(out, 'cut_%s.so' % n))]
    if any(n.startswith('S-') for n in todo) and not os.path.exists(os.path.join(out, 'ub_handlers.o')):
        r = run(['gcc', '-O1', '-fPIC', '-fvisibility=hidden', '-c', os.path.join(ROOT, 'cut', 'ub_handlers.c'), '-o', os.path.join(out, 'ub_handlers.o')])
        if r.returncode != 0: raise SystemExit('ub_handlers build failed\n' + r.stdout)
    t0 = time.time()
    def one(n):
        cmd, so = cfg_cmd(n, out)
        tmp = so + '.tmp%d' % os.getpid()
        cmd[-1] = tmp
        r = run(cmd)
        if r.returncode != 0: return n, r.stdout
        os.replace(tmp, so); return n, None
    if todo:
        with ThreadPoolExecutor(JOBS) as ex: res = list(ex.map(one, todo))
        bad = [(n, o) for n, o in res if o is not None]
        if bad:
            for n, o in bad: log('CUT build failed for %s:\n%s' % (n, o[-3000:]))
            raise SystemExit(2)
        log('built %d code-under-test objects from %s in %.1fs' % (len(todo), REPO, time.time() - t0))
    os.utime(out, None)
    return [os.path.join(out, 'cut_%s.so' % n) for n in names]

# ----------------------------------------------------------------------------- generated programs (C01.const)
def _mix(x):
    x = (x + 0x9e3779b97f4a7c15) & 0xffffffffffffffff
    x = ((x ^ (x >> 30)) * 0xbf58476d1ce4e5b9) & 0xffffffffffffffff
    x = ((x ^ (x >> 27)) * 0x94d049bb133111eb) & 0xffffffffffffffff
    return x ^ (x >> 31)
def kprog_constants(seed):
    MAXF = 0x7FFFFFFFFFFFFFFE; ks = []
    r = seed * 1000003 + 17
    for i in range(24):
        r = _mix(r); cls = i % 6; d = r % 7 - 3
        if cls == 0: k = MAXF - (r >> 8) % 70000
        elif cls == 1: k = (1 << 62) + d
        elif cls == 2: k = (1 << (1 + (r >> 8) % 62)) + d
        elif cls == 3: k = (r >> 8) % 140001 - 70000
        elif cls == 4: k = (r >> 1) & 0x7fffffffffffffff
        else: k = (MAXF + 1) // 2 + d
        if (r >> 5) & 1: k = -k
        k = max(-MAXF, min(MAXF, k))
        if k == 0: k = 1
        ks.append(k)
    return ks
def build_kprog(seed, names):
    out = os.path.join(cut_dir(), 'k%d' % seed); os.makedirs(out, exist_ok=True)
    src = os.path.join(out, 'cutk.cc')
    ks = kprog_constants(seed)
    lit = lambda v: ('(-9223372036854775807LL-1)' if v == -2**63 else '%dLL' % v)
    body = ['// generated from VERIF_SEED=%d by verif.py: constant-operand call shapes for C01.const' % seed, '#include "cut_helpers.h"', '#include "cut_api.h"',
            'struct KEntry { const char* name; int64_t k; int shape; cut_fn fn; };', '#define W extern "C" __attribute__((visibility("default"), noinline)) int64_t']
    tab = []
    for i, k in enumerate(ks):
        K = 'as_fixed(%s)' % lit(k)
        exprs = ['(F(a) + %s).v' % K, '(%s + F(a)).v' % K, '(F(a) - %s).v' % K, '(%s - F(a)).v' % K, 'h_addeq(a, %s)' % K,
                 '[](int64_t a_) { fixed_t acc = as_fixed(a_); for (int i = 0; i < 4; ++i) acc += %s; return acc.v; }(a)' % K, '(isnan(F(a) + %s) ? 1 : 0)' % K]
        for sh, e in enumerate(exprs):
            body.append('W fk_%d_%d(int64_t a, int64_t, int64_t) { return %s; }' % (i, sh, e))
            tab.append('{ "fk_%d_%d", %s, %d, &fk_%d_%d }' % (i, sh, lit(k), sh, i, sh))
    # literal shift counts (C18.const): shape 7 = a << R, shape 8 = a >> R
    for R in (0, 1, 2, 15, 16, 17, 31, 32, 33, 46, 47, 48, 61, 62, 63, -1, -64):
        for sh, e in ((7, '(F(a) << %d).v' % R), (8, '(F(a) >> %d).v' % R)):
            nm = 'fsh_%s%d_%d' % ('m' if R < 0 else '', abs(R), sh)
            body.append('W %s(int64_t a, int64_t, int64_t) { return %s; }' % (nm, e)); tab.append('{ "%s", %d, %d, &%s }' % (nm, R, sh, nm))
    body.append('static const KEntry ktab_[] = {\n  ' + ',\n  '.join(tab) + '\n};')
    body.append('extern "C" __attribute__((visibility("default"))) const KEntry* cutk_table(int* n) { *n = %d; return ktab_; }' % len(tab))
    # constant integral scalars (C02.const / C03.const): a*N, N*a, a/N, a*=N, a/=N with N a literal of each integral
    # type - powers of two (where compilers substitute shifts and __builtin_constant_p paths fire), non-powers,
    # values beyond 2^31 / 2^63, negatives; compiled under every configuration
    ctypes = [('int8_t', 8, True), ('uint8_t', 8, False), ('int16_t', 16, True), ('uint16_t', 16, False), ('int32_t', 32, True), ('uint32_t', 32, False), ('int64_t', 64, True), ('uint64_t', 64, False), ('long long', 64, True), ('unsigned long long', 64, False)]
    stab = []; rs = _mix(seed * 31337 + 9)
    for ti, (tn, bits, sg) in enumerate(ctypes):
        vals = [2, 4, 3, 10, 1 << (bits - 2), (1 << (bits - (1 if not sg else 2))) + 0, 7]
        for _ in range(3):
            rs = _mix(rs); vals.append(1 << (rs % (bits - 1))); rs = _mix(rs); vals.append(1 + rs % ((1 << (bits - 1)) - 1))
        if not sg: vals += [(1 << bits) - 1, (1 << (bits - 1)), (1 << (bits - 1)) + 5, 200 if bits == 8 else (1 << bits) - 3]
        else: vals += [-2, -8, -(1 << (bits - 1)), -3, -(1 << (bits - 2))]
        vals = sorted(set(v for v in vals if (-(1 << (bits - 1)) if sg else 0) <= v <= ((1 << (bits - 1)) - 1 if sg else (1 << bits) - 1) and v != 0))
        for j, v in enumerate(vals):
            # literal of exactly this type
            if bits < 64: L = 'static_cast<%s>(%d)' % (tn, v)
            elif sg: L = ('static_cast<%s>(-9223372036854775807LL-1)' % tn) if v == -2**63 else 'static_cast<%s>(%dLL)' % (tn, v)
            else: L = 'static_cast<%s>(%dULL)' % (tn, v)
            exprs = ['(F(a) * %s).v' % L, '(%s * F(a)).v' % L, '(F(a) / %s).v' % L, 'h_muleq(a, %s)' % L, 'h_diveq(a, %s)' % L]
            for sh, e in enumerate(exprs):
                body.append('W fs_%d_%d_%d(int64_t a, int64_t, int64_t) { return %s; }' % (ti, j, sh, e))
                stab.append('{ "fs_%d_%d_%d", %s, %d, %d, &fs_%d_%d_%d }' % (ti, j, sh, lit(v if v < 2**63 else v - 2**64), ti, sh, ti, j, sh))
    body.append('struct SEntry { const char* name; int64_t n; int type; int shape; cut_fn fn; };')
    body.append('static const SEntry stab_[] = {\n  ' + ',\n  '.join(stab) + '\n};')
    body.append('extern "C" __attribute__((visibility("default"))) const SEntry* cuts_table(int* n) { *n = %d; return stab_; }' % len(stab))
    # generated expression programs: postfix strings over a b c (run-time operands), k<i> (constants) and the
    # operators + - (kind 0: exact model in the harness, C01.expr) plus * / n(eg) A(bs) f(loor) (kind 1: compared
    # across builds only, C08.prog). Every intermediate is tested (on the raw representation) for being a finite value; the program returns the value and that flag.
    progs = []; r = _mix(seed * 7919 + 5)
    def rnd(n):
        nonlocal r
        r = _mix(r); return r % n
    def gen(depth, ops):
        if depth == 0 or rnd(4) == 0:
            t = rnd(5); return ('a', 'b', 'c')[t] if t < 3 else 'k%d' % rnd(len(ks))
        op = ops[rnd(len(ops))]
        if op in 'nAf': return gen(depth - 1, ops) + ' ' + op
        return gen(depth - 1, ops) + ' ' + gen(depth - 1, ops) + ' ' + op
    for i in range(40): progs.append((0, gen(2 + rnd(3), '+-')))
    for i in range(40): progs.append((1, gen(2 + rnd(3), '+-+-*/nAf')))
    ptab = []
    body.append('struct PEntry { const char* postfix; int kind; int64_t (*fn)(int64_t, int64_t, int64_t, int64_t*); };')
    for i, (kind, pf) in enumerate(progs):
        st = []; lines = []; n = 0
        for tok in pf.split():
            if tok in ('a', 'b', 'c'): st.append('F(%s)' % tok)
            elif tok[0] == 'k': st.append('as_fixed(%s)' % lit(ks[int(tok[1:])]))
            else:
                if tok in 'nAf':
                    x = st.pop(); e = {'n': '(-%s)' % x, 'A': 'abs(%s)' % x, 'f': 'floor(%s)' % x}[tok]
                else:
                    y = st.pop(); x = st.pop(); e = '(%s %s %s)' % (x, tok, y)
                lines.append('  fixed_t t%d = %s; nan |= (t%d.v >= INT64_MAX || t%d.v <= -INT64_MAX);' % (n, e, n, n)); st.append('t%d' % n); n += 1    # flag: not a finite value (NaN sentinel, or -2^63 from an out-of-domain floor)
        body.append('extern "C" __attribute__((visibility("default"), noinline)) int64_t fp_%d(int64_t a, int64_t b, int64_t c, int64_t* flag) {\n  bool nan = false; (void)a; (void)b; (void)c;\n%s\n  fixed_t res = %s; *flag = nan ? 1 : 0; return res.v; }' % (i, '\n'.join(lines), st[-1]))
        ptab.append('{ "%s", %d, &fp_%d }' % (pf, kind, i))
    body.append('static const PEntry ptab_[] = {\n  ' + ',\n  '.join(ptab) + '\n};')
    body.append('extern "C" __attribute__((visibility("default"))) const PEntry* cutp_table(int* n) { *n = %d; return ptab_; }' % len(ptab))
    body.append('extern "C" __attribute__((visibility("default"))) const int64_t* cutk_consts(int* n) { static const int64_t ks_[] = { %s }; *n = %d; return ks_; }' % (', '.join(lit(k) for k in ks), len(ks)))
    text = '\n'.join(body) + '\n'
    if not os.path.exists(src) or open(src).read() != text: open(src, 'w').write(text)
    def one(n):
        so = os.path.join(out, 'cutk_%s.so' % n)
        if os.path.exists(so) and os.path.getmtime(so) >= os.path.getmtime(src): return None
        m = re.match(r'(g\+\+|clang\+\+)-O(\d|s)-(.*)$', n)
        cmd = [m.group(1)] + STDS[m.group(3)] + ['-O' + m.group(2), '-fPIC', '-shared', '-fvisibility=hidden', '-w', '-I' + INC, '-I' + os.path.join(ROOT, 'cut'), src, '-o', so + '.tmp']
        r = run(cmd)
        if r.returncode: return n + ': ' + r.stdout[-2000:]
        os.replace(so + '.tmp', so); return None
    with ThreadPoolExecutor(JOBS) as ex: errs = [e for e in ex.map(one, names) if e]
    if errs: raise SystemExit('generated program build failed:\n' + '\n'.join(errs))
    return out

# ----------------------------------------------------------------------------- known findings
KF_FILE = os.path.join(ROOT, 'known_findings.jsonl')
def load_known():
    out = []
    if os.path.exists(KF_FILE):
        for i, l in enumerate(open(KF_FILE)):
            l = l.strip()
            if not l or l.startswith('#'): continue
            e = json.loads(l); e['index'] = i; out.append(e)
    return out

def write_kf_txt(known, prop, path):
    with open(path, 'w') as f:
        for e in known:
            if e.get('status') != 'known' or e['property'] != prop: continue
            m = e['match']
            head = '%d %s %s %s' % (e['index'], e['property'], e.get('clause', '*'), e.get('cfg', '*'))
            if 'site' in m: f.write('%s site %s %s %d\n' % (head, m['site']['kind'], m['site']['file'], m['site']['line']))
            else:
                b = m['box']; f.write('%s box %d %s\n' % (head, len(b), ' '.join('%d %s %d %d' % (r['arg'], 'A' if r.get('abs') else 'R', r['lo'], r['hi']) for r in b)))

# ----------------------------------------------------------------------------- checks
from checks import CHECKS, ASSUMPTIONS   # property id -> list of clause runs

def run_workers(exe, jobs):
    """jobs: list of (argv, logpath). Runs up to JOBS at a time. Returns list of return codes."""
    def one(j):
        argv, logp, timeout = j
        with open(logp, 'w') as lf:
            try: return subprocess.run(argv, stdout=lf, stderr=subprocess.STDOUT, timeout=timeout).returncode
            except subprocess.TimeoutExpired: return 124
    with ThreadPoolExecutor(JOBS) as ex: return list(ex.map(one, jobs))

def do_replay(exe, clause, args, sos, kf_txt=None, kdir=None):
    argv = [exe, 'replay', clause, '--args', ','.join(str(a) for a in args)] + (['--kf', kf_txt] if kf_txt else []) + (['--kdir', kdir] if kdir else []) + sos
    r = run(argv)
    return r.returncode, r.stdout

def check(prop, tier):
    t0 = time.time()
    seed = int(os.environ.get('VERIF_SEED', '1') or '1')
    if prop not in CHECKS: raise SystemExit('unknown property ' + prop)
    exe = build_harness()
    spec = CHECKS[prop]
    known = load_known()
    work = tempfile.mkdtemp(prefix='fmv-%s-' % prop, dir=os.path.join(BUILD, 'tmp') if os.path.isdir(os.path.join(BUILD, 'tmp')) else None)
    kf_txt = os.path.join(work, 'kf.txt'); write_kf_txt(known, prop, kf_txt)
    # which configurations
    fams = set()
    for c in spec['clauses']: fams.add(c.get('family', 'R'))
    cfgnames = {'R': R_QUICK if tier == 'quick' else R_ALL, 'S': S_QUICK if tier == 'quick' else S_ALL}
    need = []
    for f in fams: need += cfgnames[f]
    paths = dict(zip(need, build_cuts(need)))
    kdir = build_kprog(seed, cfgnames['R']) if any(c.get('kprog') for c in spec['clauses']) else None
    kclauses = set(c['id'] for c in spec['clauses'] if c.get('kprog'))
    jobs = []; meta = []
    # replay tier: saved failing cases (regress/<prop>.jsonl) are evaluated first by worker 0 of their clause
    pre = {}
    rp = os.path.join(ROOT, 'regress', prop + '.jsonl')
    if os.path.exists(rp):
        by = {}
        for l in open(rp):
            if l.strip(): e = json.loads(l); by.setdefault(e['clause'], []).append(','.join(str(x) for x in e['args']))
        for cid, lines in by.items():
            pre[cid] = os.path.join(work, cid + '.pre'); open(pre[cid], 'w').write('\n'.join(lines) + '\n')
    for c in spec['clauses']:
        fam = c.get('family', 'R')
        sos = [paths[n] for n in cfgnames[fam]]
        t = c[tier]
        nw = max(1, min(JOBS, t.get('workers', JOBS)))
        per = max(1, int(t.get('n', 1000) * SCALE) // nw)
        for w in range(nw):
            out = os.path.join(work, '%s.%d.json' % (c['id'], w))
            argv = [exe, 'run', c['id'], '--tier', tier, '--seed', str(seed), '--worker', str(w), '--nworkers', str(nw), '--n', str(per), '--out', out, '--kf', kf_txt] + sos
            if w == 0 and c['id'] in pre: argv[3:3] = ['--pre', pre[c['id']]]
            if c.get('kprog'): argv[3:3] = ['--kdir', kdir]
            jobs.append((argv, out + '.log', int(os.environ.get('VERIF_WORKER_TIMEOUT', t.get('timeout', 3600)))))
            meta.append((c, w, out, sos))
    # extra engines (fuzz, consteval) are plugged in by checks.py through 'extra'
    rcs = run_workers(exe, jobs)
    results = []; harness_errors = []
    for (c, w, out, sos), rc in zip(meta, rcs):
        if rc not in (0, 1) or not os.path.exists(out):
            harness_errors.append('%s worker %d exited %s (log %s)' % (c['id'], w, rc, out + '.log'))
            continue
        r = json.load(open(out)); r['_sos'] = sos; r['_rc'] = rc; r['_out'] = out; results.append(r)
    extra_results = []
    for fn in ([] if NOEXTRA else spec.get('extra', [])):
        extra_results.append(fn(dict(prop=prop, tier=tier, seed=seed, work=work, exe=exe, known=known, kf_txt=kf_txt, build_cuts=build_cuts, paths=paths, repo=REPO, root=ROOT, jobs=JOBS, log=log)))

    # ---- violations: confirm each shrunk failure 3x through the plain replay path
    violations = []; seen = set(); per_clause = {}
    for r in sorted(results, key=lambda r: sum(abs(x) for x in (r.get('failure') or {}).get('args', []))):
        fl = r.get('failure')
        if not fl: continue
        key = (fl['clause'], tuple(fl['args']))
        if key in seen: continue
        seen.add(key)
        # at most two reported cases per clause (the smallest ones); every worker's failure is in the evidence count
        if per_clause.get(fl['clause'], 0) >= 2: continue
        per_clause[fl['clause']] = per_clause.get(fl['clause'], 0) + 1
        ok3 = True; outp = ''
        for _ in range(3):
            rc, outp = do_replay(exe, fl['clause'], fl['args'], r['_sos'], kf_txt, kdir if fl['clause'] in kclauses else None)
            if rc != 1: ok3 = False
        if not ok3:
            harness_errors.append('failure of %s args=%s did not reproduce 3x through replay:\n%s' % (fl['clause'], fl['args'], outp))
            continue
        violations.append(dict(property=prop, clause=fl['clause'], args=fl['args'], cfg=fl['cfg'], what=fl['what'], first=r.get('failure_first'), configs=r['configs'], replay_output=outp, tier=tier, seed=seed))
    for er in extra_results:
        for v in er.get('violations', []): violations.append(v)
        harness_errors += er.get('errors', [])

    # ---- evidence
    clauses = {}
    for r in results:
        c = clauses.setdefault(r['clause'], dict(engine=r['engine'], rule=r['desc'], evaluations=0, executions=0, nontrivial=0, skipped=0, excluded_known=0, exhaustive=True, workers=0, classes={}, maxima={}, extra={}, configs=r['configs'], samples=[], notes=[], distinct_capped=False, _hashes=[]))
        for k in ('evaluations', 'executions', 'nontrivial', 'skipped', 'excluded_known'): c[k] += r[k]
        c['exhaustive'] = c['exhaustive'] and r['exhaustive']; c['workers'] += 1
        c['distinct_capped'] = c['distinct_capped'] or r['distinct_capped']
        for k, v in r['classes'].items(): c['classes'][k] = c['classes'].get(k, 0) + v
        for k, v in r['extra'].items(): c['extra'][k] = c['extra'].get(k, 0) + v
        for k, v in r['maxima'].items(): c['maxima'][k] = max(c['maxima'].get(k, v), v)
        if r['note'] and r['note'] not in c['notes']: c['notes'].append(r['note'])
        c['samples'] += r['samples'][:max(1, 12 // max(1, len([x for x in results if x['clause'] == r['clause']])))]
        c['_hashes'].append(r['_out'] + '.hashes'); c['_bulk'] = c.get('_bulk', 0) + r.get('distinct_bulk', 0)
    total_eval = 0; total_dn = 0; samples = []
    for cid, c in clauses.items():
        hs = c.pop('_hashes')
        d = run([exe, 'merge'] + hs).stdout.strip()
        c['distinct_nontrivial'] = (int(d) if d.isdigit() else 0) + c.pop('_bulk', 0)
        total_eval += c['evaluations']; total_dn += c['distinct_nontrivial']
        pick = [s for s in c['samples'] if s['nontrivial']][:4] + [s for s in c['samples'] if not s['nontrivial']][:2]
        samples += pick; c['samples'] = c['samples'][:6]
    for er in extra_results:
        e = er.get('evidence')
        if e:
            clauses[e['id']] = e; total_eval += e.get('evaluations', 0); total_dn += e.get('distinct_nontrivial', 0); samples += e.get('samples', [])[:4]
    kf_hits = {}
    for r in results:
        for k, v in r.get('known_hits', {}).items(): kf_hits[int(k)] = kf_hits.get(int(k), 0) + v
    for er in extra_results:
        for k, v in er.get('known_hits', {}).items(): kf_hits[int(k)] = kf_hits.get(int(k), 0) + v
    ev = dict(property_id=prop, tier=tier, seed=seed, level='exploration',
              coverage=dict(evaluations=total_eval, distinct_nontrivial=total_dn,
                            rule=spec['rule'], samples=samples, exhaustive=bool(clauses) and all(c.get('exhaustive') for c in clauses.values()),
                            clauses=clauses, configurations=sorted(need), repo_tree=os.path.basename(cut_dir()),
                            excluded_known=sum(c.get('excluded_known', 0) for c in clauses.values()),
                            known_findings_reproduced=sorted(kf_hits)),
              assumptions=ASSUMPTIONS + spec.get('assumptions', []), wall_s=round(time.time() - t0, 2), violations=len(violations))
    os.makedirs(os.path.join(OUTBASE, 'evidence'), exist_ok=True)
    with open(os.path.join(OUTBASE, 'evidence', prop + '.json'), 'w') as f: json.dump(ev, f, indent=1)

    # ---- generator self-test: floors on classes (a harness bug if violated, not a violation)
    for cid, floors in ({} if violations else spec.get('floors', {})).items():
        c = clauses.get(cid)
        if not c or not c['evaluations']: harness_errors.append('clause %s produced no cases' % cid); continue
        for cls, frac in floors.items():
            got = (c['nontrivial'] if cls == '@nontrivial' else c['classes'].get(cls, 0)) / float(c['evaluations'])
            if got < frac: harness_errors.append('generator degenerate: clause %s class %s = %.4f < floor %.4f' % (cid, cls, got, frac))

    # ---- report
    for e in known:
        if e.get('status') == 'known' and e['property'] == prop and kf_hits.get(e['index']):
            print('KNOWN-FINDING: property=%s %s (reproduced on %d cases this run)' % (prop, e['what'], kf_hits[e['index']]))
    rcode = 0
    for v in violations:
        body = json.dumps(v, sort_keys=True, indent=1)
        d = os.path.join(OUTBASE, 'replays', prop); os.makedirs(d, exist_ok=True)
        p = os.path.join(d, hashlib.sha256(json.dumps([v.get('clause'), v.get('args'), v.get('kind', '')]).encode()).hexdigest()[:12] + '.json')
        with open(p, 'w') as f: f.write(body)
        log('violation: %s %s args=%s on %s: %s' % (prop, v.get('clause'), v.get('args'), v.get('cfg'), v.get('what')))
        print('VIOLATION property=%s replay=%s' % (prop, p)); rcode = 1
    if harness_errors:
        for h in harness_errors: log('HARNESS-ERROR: ' + h)
        if rcode == 0: rcode = 2
    log('%s %s: %d cases (%d distinct non-trivial) over %d clauses, %d violations, %.1fs' % (prop, tier, total_eval, total_dn, len(clauses), len(violations), time.time() - t0))
    if rcode != 2 and not os.environ.get('VERIF_KEEP'): shutil.rmtree(work, ignore_errors=True)
    else: log('work dir kept: ' + work)
    return rcode

def replay(path):
    v = json.load(open(path))
    if v.get('kind') and v['kind'] != 'case':
        from checks import replay_extra
        return replay_extra(v, dict(build_cuts=build_cuts, exe=build_harness(), repo=REPO, root=ROOT, log=log))
    exe = build_harness()
    sos = build_cuts(v['configs'])
    kd = None
    for spec in CHECKS.values():
        for c in spec['clauses']:
            if c['id'] == v['clause'] and c.get('kprog'): kd = build_kprog(int(v.get('seed', 1)), v['configs'])
    rc, out = do_replay(exe, v['clause'], v['args'], sos, None, kd)
    print(out, end='')
    return rc

def main():
    if len(sys.argv) < 2: print(__doc__); return 2
    cmd = sys.argv[1]
    os.makedirs(os.path.join(BUILD, 'tmp'), exist_ok=True)
    if cmd == 'setup':
        build_harness()
        from checks import setup_extra
        setup_extra(dict(root=ROOT, build=BUILD, log=log, jobs=JOBS))
        return 0
    if cmd == 'clauses':
        print(run([build_harness(), 'list']).stdout, end=''); return 0
    if cmd == 'check':
        prop = sys.argv[2]; tier = os.environ.get('VERIF_TIER', 'quick')
        if '--tier' in sys.argv: tier = sys.argv[sys.argv.index('--tier') + 1]
        return check(prop, tier)
    if cmd == 'replay': return replay(sys.argv[2])
    if cmd == 'mutants':
        import mutants
        return mutants.main(sys.argv[2:])
    if cmd == 'build-cuts':
        for p in build_cuts(sys.argv[2:]): print(p)
        return 0
    print(__doc__); return 2

if __name__ == '__main__':
    sys.exit(main())
