"""Sensitivity run: apply each deliberate property-breaking change (mutants/*.patch, seeded/*/patch.diff)
to a scratch copy of the repository, make sure the repository's own 39 tests still pass there, and
run the owning checks against the copy (VERIF_REPO). Results: mutants/RESULTS.json + RESULTS.md.

  verif.py mutants [--tier quick|thorough] [--only NAME-substring] [--props C01,C07]
"""
import json, os, shutil, subprocess, sys, tempfile, time, glob, re
ROOT = os.path.dirname(os.path.abspath(__file__))

def collect():
    out = []
    idx = json.load(open(os.path.join(ROOT, 'mutants', 'index.json'))) if os.path.exists(os.path.join(ROOT, 'mutants', 'index.json')) else {}
    for p in sorted(glob.glob(os.path.join(ROOT, 'mutants', '*.patch'))):
        n = os.path.basename(p)[:-6]; m = idx.get(n, {})
        out.append(dict(name='own/' + n, patch=p, props=m.get('props', []), what=m.get('what', '')))
    for d in sorted(glob.glob(os.path.join(ROOT, 'seeded', '*'))):
        mp = os.path.join(d, 'meta.json'); pp = os.path.join(d, 'patch.diff')
        if not (os.path.exists(mp) and os.path.exists(pp)): continue
        m = json.load(open(mp))
        out.append(dict(name='seeded/' + os.path.basename(d), patch=pp, props=m.get('check_with', [m['property']]), what=m.get('needs', '')))
    return out

def run_one(mu, tier, seed):
    tmp = tempfile.mkdtemp(prefix='fm-mut-')
    res = dict(name=mu['name'], what=mu['what'], props={}, suite=None)
    try:
        subprocess.run('git -C /repo archive HEAD | tar -x -C %s' % tmp, shell=True, check=True)
        r = subprocess.run(['git', 'apply', '--whitespace=nowarn', os.path.abspath(mu['patch'])], cwd=tmp, stdout=subprocess.PIPE, stderr=subprocess.STDOUT, text=True)
        if r.returncode: res['suite'] = 'patch does not apply: ' + r.stdout[-300:]; return res
        r = subprocess.run([os.path.join(ROOT, 'tools', 'suite_on_tree.sh'), tmp], stdout=subprocess.PIPE, stderr=subprocess.STDOUT, text=True)
        res['suite'] = 'pass' if r.returncode == 0 else 'FAIL'
        out = tempfile.mkdtemp(prefix='fm-mut-out-')
        for prop in mu['props']:
            env = dict(os.environ, VERIF_REPO=tmp, VERIF_OUT=out, VERIF_SEED=str(seed))
            t0 = time.time()
            r = subprocess.run([sys.executable, os.path.join(ROOT, 'verif.py'), 'check', prop, '--tier', tier], stdout=subprocess.PIPE, stderr=subprocess.PIPE, text=True, env=env)
            viol = [l for l in r.stdout.splitlines() if l.startswith('VIOLATION')]
            first = ''
            m = re.search(r'violation: (.*)', r.stderr)
            if m: first = m.group(1)[:300]
            res['props'][prop] = dict(exit=r.returncode, caught=(r.returncode == 1 and bool(viol)), wall_s=round(time.time() - t0, 1), first=first, harness_errors=[l for l in r.stderr.splitlines() if l.startswith('HARNESS-ERROR')][:3])
        shutil.rmtree(out, ignore_errors=True)
    finally:
        shutil.rmtree(tmp, ignore_errors=True)
    return res

def main(argv):
    benign = '--benign' in argv
    tier = 'quick'; only = None; props = None; seed = int(os.environ.get('VERIF_SEED', '1') or 1)
    i = 0
    while i < len(argv):
        if argv[i] == '--tier': tier = argv[i + 1]; i += 2
        elif argv[i] == '--only': only = argv[i + 1]; i += 2
        elif argv[i] == '--props': props = argv[i + 1].split(','); i += 2
        else: i += 1
    if benign:
        # negative controls: property-preserving changes (other rounding direction, other NaN sign where the
        # property allows it). Every check must stay green on them.
        allp = props or ['C%02d' % i for i in range(1, 21)]
        area = {'agent1': ['C01', 'C06', 'C16', 'C17', 'C07', 'C08'], 'agent2': ['C02', 'C03', 'C16', 'C17', 'C07', 'C08'], 'agent3': ['C04', 'C05', 'C15', 'C18', 'C16', 'C07', 'C08'],
                'agent4': ['C09', 'C20', 'C07', 'C08'], 'agent5': ['C10', 'C11', 'C20', 'C07', 'C08'], 'agent6': ['C12', 'C13', 'C14', 'C07', 'C08'], 'agent7': ['C19', 'C07', 'C08'],
                'agent8': ['C04', 'C09', 'C10', 'C11', 'C12', 'C13', 'C14', 'C20', 'C07', 'C08'], 'mul_': ['C02', 'C16', 'C17', 'C20', 'C07', 'C08'], 'div_': ['C03', 'C16', 'C17', 'C11', 'C07', 'C08'],
                'floor_': ['C15', 'C04', 'C08'], 'isnan_': ['C06', 'C01', 'C08'], 'angle_': ['C19', 'C07'], 'sqrt_': ['C13', 'C14', 'C12', 'C08']}
        def props_for(f):
            if '--all-props' in argv or props: return allp
            b = os.path.basename(f)
            for k, v in area.items():
                if b.startswith(k): return v
            return allp
        mus = [dict(name='benign/' + os.path.basename(f)[:-6], patch=f, props=props_for(f), what=open(f).readline().strip('# \n')) for f in sorted(glob.glob(os.path.join(ROOT, 'mutants', 'benign', '*.patch'))) if (not only or only in f)]
    else:
        mus = [m for m in collect() if (not only or only in m['name'])]
    results = []
    for mu in mus:
        if props: mu = dict(mu, props=[p for p in mu['props'] if p in props] or props)
        r = run_one(mu, tier, seed); results.append(r)
        if benign: print('%-44s suite=%-5s %s' % (r['name'], r['suite'], '  '.join('%s:%s' % (p, 'green' if v['exit'] == 0 else 'ALARM[exit %d] %s' % (v['exit'], v['first'][:120])) for p, v in r['props'].items())), flush=True)
        else: print('%-44s suite=%-5s %s' % (r['name'], r['suite'], '  '.join('%s:%s(%.0fs)' % (p, 'CAUGHT' if v['caught'] else 'missed[exit %d]' % v['exit'], v['wall_s']) for p, v in r['props'].items())), flush=True)
    path = os.path.join(ROOT, 'mutants', ('BENIGN-%s.json' if benign else 'RESULTS-%s.json') % tier)
    old = {}
    if os.path.exists(path):
        for r in json.load(open(path)): old[r['name']] = r
    for r in results: old[r['name']] = r
    json.dump(sorted(old.values(), key=lambda r: r['name']), open(path, 'w'), indent=1)
    return 0
