"""Which clauses decide which property, with their quick/thorough budgets."""
ASSUMPTIONS = [
    "GCC 12.2 / Clang 14.0.6 on x86-64 with libstdc++ 12 are the compilers the configuration quantifier ranges over",
    "the oracle is an exact model over GCC's __int128 and glibc long-double libm; it includes no repository header",
    "code under test = thin extern \"C\" wrappers (cut/cut_main.cc) compiled from the current working tree, one shared object per build configuration",
    "exploration never establishes absence: inputs outside the enumerated / generated classes are not covered",
]

def rc(id, nq, nt, family='R', **kw):
    d = dict(id=id, family=family, quick=dict(n=nq), thorough=dict(n=nt)); d.update(kw); return d
def sweep(id, family='R', **kw):
    d = dict(id=id, family=family, quick=dict(n=0), thorough=dict(n=0)); d.update(kw); return d

CHECKS = {
 'C01': dict(
    rule="generated pairs of finite raw values (independent and result-targeted) x {+,-,+=,-=}, 17 inlined call shapes, and generated programs with compile-time constant operands, each evaluated on every build configuration (8 quick / 32 thorough: GCC and Clang, -O0..-O3, c++17/20/2b); non-trivial = the exact result leaves [lowest,max] or lies within 2^17 of the limit; distinctness = 64-bit hash of (clause, arguments)",
    clauses=[rc('C01.addsub', 8000000, 320000000), rc('C01.shape', 8000000, 320000000), rc('C01.const', 6000000, 240000000, kprog=True), rc('C01.expr', 6000000, 240000000, kprog=True), sweep('C01.grid')],
    floors={'C01.addsub': {'overflow': 0.10, 'at-boundary+-3': 0.01}, 'C01.shape': {'overflow': 0.10}, 'C01.const': {'overflow': 0.10}, 'C01.expr': {'overflow': 0.05}}),

 'C02': dict(
    rule="generated (a,b) pairs for fixed*fixed (independent, product-targeted at +-2^63 / +-MAXF*2^16, complementary bit lengths) and (a,n) for every integral type in both operand orders and *=; evaluated on every build configuration; non-trivial = |raw product| >= 2^62 (fixed*fixed) or product out of range / >= 2^56 (scalar)",
    clauses=[rc('C02.mulff', 8000000, 240000000), rc('C02.mulint', 8000000, 240000000), rc('C02.const', 4000000, 160000000, kprog=True), sweep('C02.grid')],
    floors={'C02.mulff': {'P-not-in-int64': 0.20, 'P-fits-int64-and>=2^56': 0.10}, 'C02.mulint': {'product-outside-range': 0.10}}),
 'C03': dict(
    rule="generated (a,b) pairs for fixed/fixed (zero and tiny divisors, dividends -k*2^47, the 2^47 limit, quotient-first) and (a,n) for every integral divisor type; non-trivial = |a| >= 2^46, |b| <= 2 raw, |quotient| >= 2^46, or scalar n in {0,+-1} / |n| >= 2^31; a call that does not return is a violation",
    clauses=[rc('C03.divff', 8000000, 240000000), rc('C03.divint', 8000000, 240000000), rc('C03.const', 4000000, 160000000, kprog=True), sweep('C03.grid')],
    floors={'C03.divff': {'zero-divisor': 0.005, '|a|>=2^47': 0.15}, 'C03.divint': {'zero-divisor': 0.02}}),
 'C04': dict(
    rule="every integral type: generated n (type classes and limits) through five conversion spellings, generated finite x through three fixed->T spellings, and an enumeration of all int8/uint8/int16/uint16 values (int32/uint32 strided quick, complete thorough); non-trivial = n out of range or within 2^16 of +-(2^31-1), floor(x) not representable in T or at a limit, negative fractions",
    clauses=[rc('C04.fromint', 6000000, 160000000), rc('C04.toint', 6000000, 160000000), sweep('C04.sweep'), rc('C04.twice', 2000000, 80000000)],
    floors={'C04.fromint': {'out-of-range->NaN': 0.08}, 'C04.toint': {'k-not-representable->0': 0.20}}),
 'C05': dict(
    rule="float and double bit patterns (exponent-uniform, specials, ties) through three conversion spellings, finite raw x through fixed->float/double and the double round trip, and an enumeration of float bit patterns (strided quick, all 2^32 thorough); non-trivial = non-finite / out of range, inexact, exact tie, |v| >= 2^30, float rounding needed, round-trip band",
    clauses=[rc('C05.f32', 6000000, 160000000), rc('C05.f64', 8000000, 100000000), rc('C05.tofp', 6000000, 240000000), sweep('C05.f32sweep'), sweep('C05.f64lattice'), sweep('C05.tofplattice')],
    floors={'C05.f64': {'inexact': 0.30, 'exact-tie': 0.01}, 'C05.f32': {'inexact': 0.10}}),
 'C06': dict(
    rule="pairs of raw values incl. both NaN sentinels (equal, adjacent, mirrored) x six comparisons; single values for isnan / negation / abs; non-trivial = a NaN or +-MAXF operand, |a-b| <= 1, |x| >= 2^62",
    clauses=[rc('C06.cmp', 12000000, 480000000), rc('C06.unary', 8000000, 320000000), sweep('C06.grid'), rc('C06.twice', 1000000, 40000000)],
    floors={'C06.cmp': {'NaN-or-limit-operand': 0.10, '|a-b|<=1': 0.10}, 'C06.unary': {'NaN': 0.05}}),
 'C15': dict(
    rule="finite raw x with |x| < 2^47-1, one third integer-valued; floor and ceil compared with the unique values the bracketing inequalities determine, plus ceil(x) == -floor(-x); non-trivial = integer-valued, within 2 raw of an integer, |raw| >= 2^62",
    clauses=[rc('C15.floorceil', 20000000, 800000000)],
    floors={'C15.floorceil': {'integer-valued': 0.25}}),
 'C16': dict(
    rule="(finite raw a, t) for t of every integral type, float and double x four operators x operand orders and compound assignments; relation to the promoted computation on the same build, exact scalar model for integer-exact forms, host IEEE for double; non-trivial = |t| >= 2^31, unsigned t >= 2^63, non-integral float, non-finite double, mirrored non-commutative forms",
    clauses=[rc('C16.int', 8000000, 240000000), rc('C16.f32', 4000000, 120000000), rc('C16.f64', 4000000, 120000000)],
    floors={'C16.int': {'t-op-a': 0.2, 'a-op=-t': 0.2}}),
 'C17': dict(
    rule="triples of finite raw values and integers per algebraic law (ten laws), and operation histories of length 1..24 over one accumulator compared step by step with the exact model; preconditions are decided on the exact model, never on library outputs; non-trivial = an intermediate within 2^17 of +-MAXF or beyond, large n, long histories with *n../n",
    clauses=[rc('C17.laws', 8000000, 240000000), rc('C17.hist', 3000000, 10000000)],
    floors={'C17.laws': {'precondition-true': 0.40}, 'C17.hist': {'model-reaches-NaN': 0.15, 'all-finite': 0.15}}),
 'C18': dict(
    rule="(finite raw x, count in [INT_MIN,63]) for both shifts, a quarter of the cases straddling the range limit; pairs of raw values for &; non-trivial = negative count, count in {0,62,63}, negative x, x*2^r out of range, negative & operand",
    clauses=[rc('C18.shift', 12000000, 480000000), rc('C18.and', 6000000, 240000000), rc('C18.const', 4000000, 160000000, kprog=True), rc('C18.twice', 2000000, 80000000), sweep('C18.gridshift'), sweep('C18.gridand')],
    floors={'C18.shift': {'negative-count': 0.1, 'shl-out-of-range': 0.1}}),

 'C09': dict(
    rule="every raw x in [-2pi, 2pi] for sin and cos against long-double libm with the property's own bound, plus generated (x,k) with raw |x|, |x + k*2phi| < 2^62 (values below 2^46) for exact periodicity; non-trivial = r > 1.2, |x| > pi/2, k != 0",
    clauses=[sweep('C09.acc'), rc('C09.period', 40000000, 800000000)],
    floors={'C09.period': {'|k|>4': 0.5, 'raw-beyond-2^46': 0.2}}),
 'C10': dict(
    rule="every raw x in [-pi, pi] for tan against long-double libm, plus generated x up to 62 bits for oddness, period and the pole set; non-trivial = reciprocal branch, beyond pi/2, near a pole, reduction executed",
    clauses=[sweep('C10.acc'), rc('C10.rel', 40000000, 800000000)],
    floors={'C10.rel': {'at-pole': 0.05, 'reduction-executed': 0.15}}),
 'C11': dict(
    rule="atan: exhaustive low range + lattice per bit length to 47 + segment boundaries; generated ordered pairs for monotonicity; generated (y,x) with independent bit lengths for atan2; non-trivial = |x| > 39/16, segment boundaries, |raw| >= 2^29, adjacent pairs, axis cases, |log2|y/x|| > 13",
    clauses=[sweep('C11.atan'), rc('C11.mono', 20000000, 400000000), rc('C11.atan2', 20000000, 400000000), sweep('C11.grid')],
    floors={'C11.atan2': {'axis': 0.05, '|log2|y/x||>13': 0.3}}),
 'C12': dict(
    rule="every raw x in [-1, 1] under both square-root algorithms, plus generated x outside; non-trivial = |x| > 0.6, |x| > 0.99, at the switch, just outside or huge",
    clauses=[sweep('C12.in'), rc('C12.inrc', 400000, 20000000), rc('C12.out', 6000000, 160000000)], floors={}),
 'C13': dict(
    rule="sqrt through sqrt(), detail::sqrt_abacus and detail::sqrt_std_math: exhaustive low range, lattice per bit length to 47, perfect squares, generated negatives; integer-only oracle; non-trivial = raw >= 2^22, top binade, negative",
    clauses=[sweep('C13.sqrt'), rc('C13.sqrtrc', 10000000, 240000000)], floors={'C13.sqrtrc': {'top-binade[2^46,2^47)': 0.01, 'negative': 0.05}}),
 'C14': dict(
    rule="generated pairs (a,b) below 2^47 with planted normalisation thresholds, under both square-root algorithms; non-trivial = max >= 2^29, min < 2^16, threshold +- 8",
    clauses=[rc('C14.hypot', 30000000, 640000000), sweep('C14.grid')],
    floors={'C14.hypot': {'branch:hi>=2^30(shift-right)': 0.15, 'branch:lo<2^16(shift-left)': 0.15, 'branch:direct': 0.10, 'threshold+-8': 0.03}}),
 'C19': dict(
    rule="all table entries; int32 degrees (generated + enumerated) for the *_angle_aprox functions; sqrt_aprox and atan_index_aprox over exhaustive low ranges, lattices and table-entry neighbourhoods; non-trivial = negative / > 360 degrees, binade edges, large arguments, every table entry",
    clauses=[sweep('C19.tables'), rc('C19.angle', 10000000, 160000000), sweep('C19.anglesweep'), sweep('C19.sqrt_aprox'), sweep('C19.atan_index'), sweep('C19.staticinit'), sweep('C19.angletypes')], floors={'C19.angle': {'negative-degrees': 0.2}}),
 'C20': dict(
    rule="angle_to_radians<T> generated and enumerated per integral type; sin/cos/tan_angle for every integer d in [-360,360] and every argument type able to carry d; non-trivial = outside [0,360], 8-bit types beyond 104, negative d, d in (135,180) u (315,360)",
    clauses=[rc('C20.a2r', 6000000, 160000000), sweep('C20.a2rsweep'), sweep('C20.angle')], floors={'C20.a2r': {'outside[0,360]->NaN': 0.2}}),
 'C07': dict(
    rule="(entry point, arguments) over the whole inventory on sanitized builds with harness-owned UBSan handlers, the libstdc++ assertion hook and signal recovery; identity of a finding = (kind, file, line)",
    clauses=[rc('C07.entry', 30000000, 100000000, family='S'), rc('C07.trap', 10000000, 50000000, family='R')], floors={'C07.entry': {'@nontrivial': 0.4}}),
 'C08': dict(
    rule="(entry point, in-domain arguments) over the whole inventory, bit-identical results across all build configurations (same sqrt algorithm group)",
    clauses=[rc('C08.diff', 40000000, 400000000), rc('C08.prog', 8000000, 200000000, kprog=True), sweep('C08.consts')], floors={}),
}

# ----------------------------------------------------------------------------- engine E4: constant evaluation
import os, re, json, subprocess, hashlib
from concurrent.futures import ThreadPoolExecutor
K_CONFIGS = [('g++', 'c++17', ['-DFIXEDMATH_ENABLE_SQRT_ABACUS_ALGO']), ('g++', 'c++20', []), ('g++', 'c++2b', []),
             ('clang++', 'c++17', ['-DFIXEDMATH_ENABLE_SQRT_ABACUS_ALGO']), ('clang++', 'c++20', []), ('clang++', 'c++2b', []),
             # plain c++17: sqrt_constexpr_available is false, nothing is promised to be a constant expression there, so a
             # rejection is not a finding - but a call that IS accepted must still produce the right value (lenient mode)
             ('g++', 'c++17', [], 'lenient'), ('clang++', 'c++17', [], 'lenient')]
def _lit(v):
    v = int(v)
    return '(-9223372036854775807LL-1)' if v == -2**63 else '%dLL' % v
def ce_compile(env, kcfg, cases, tag):
    """cases: list of (name, a, b, c, expected). Returns list of (index, kind, message)."""
    cc, std, defs = kcfg[0], kcfg[1], kcfg[2]
    src = os.path.join(env['work'], 'ce_%s_%s_%s%s_%s_%d.cc' % (cc.replace('+', 'p'), std.replace('+', 'p'), 'ab' if defs else '', 'plain' if len(kcfg) > 3 else '', tag, abs(hash(str(cases[:3]))) % 100000))
    with open(src, 'w') as f:
        f.write('#include "ce_entries.h"\n')
        for i, (n, a, b, c, e) in enumerate(cases):
            f.write('#line %d "ce_cases"\nstatic_assert(ce_%s(%s,%s,%s) == %s, "");\n' % (i + 1, n, _lit(a), _lit(b), _lit(c), _lit(e)))
    cmd = [cc, '-std=' + std] + defs + ['-fsyntax-only', '-w', '-I' + os.path.join(env['repo'], 'fixed_lib', 'include'), '-I' + os.path.join(env['root'], 'cut'),
           '-fmax-errors=0' if cc == 'g++' else '-ferror-limit=0', src]
    r = subprocess.run(cmd, stdout=subprocess.PIPE, stderr=subprocess.STDOUT, text=True)
    out = []; seen = set()
    for m in re.finditer(r'ce_cases:(\d+):\d+: error: (.*)', r.stdout):
        i = int(m.group(1)) - 1; msg = m.group(2)
        if i in seen: continue
        seen.add(i)
        kind = 'mismatch' if ('static assertion failed' in msg or 'static_assert failed' in msg) else 'rejected'
        out.append((i, kind, msg))
    if r.returncode != 0 and not out:
        return None, r.stdout[-2000:]
    # the reason clang/gcc give for a rejection is on the following note/error lines; keep a little context
    return out, r.stdout
def ce_engine(env, gen='c08', clause='C08.diff', cid='C08.ce', n=None):
    prop, tier, seed = env['prop'], env['tier'], env['seed']
    if n is None: n = 8000 if tier == 'quick' else 60000
    sos = [env['paths'][k] for k in sorted(env['paths']) if not k.startswith('S-')]
    casefile = os.path.join(env['work'], 'ce_cases_%s.txt' % clause.replace('.', '_'))
    r = subprocess.run([env['exe'], 'emit', clause, '--gen', gen, '--seed', str(seed), '--n', str(n * 2), '--out', casefile] + sos, stdout=subprocess.PIPE, stderr=subprocess.PIPE, text=True)
    res = dict(violations=[], errors=[], known_hits={})
    if r.returncode != 0: res['errors'].append('emit failed: ' + r.stderr[-500:]); return res
    stats = json.loads(r.stdout.strip().splitlines()[-1])
    cases = []
    for l in open(casefile):
        p = l.split();
        if len(p) == 5: cases.append((p[0], int(p[1]), int(p[2]), int(p[3]), int(p[4])))
    cases = cases[:n]
    known = [e for e in env['known'] if e.get('status') == 'known' and e['property'] == prop and e.get('clause') == cid]
    def is_known(case, kname):
        for e in known:
            m = e['match']
            if m.get('entry') and m['entry'] != case[0]: continue
            if m.get('cfg') and m['cfg'] not in kname: continue
            ok = True
            for rg in m.get('box', []):
                v = case[1 + rg['arg']]; v = abs(v) if rg.get('abs') else v
                if v < rg['lo'] or v > rg['hi']: ok = False
            if ok: return e['index']
        return None
    fails = {}; per_cfg = {}
    def one(k):
        kname = '%s-%s%s%s' % (k[0], k[1], '-abacus' if k[2] else '', '-plain' if len(k) > 3 else '')
        out, raw = ce_compile(env, k, cases, 'all')
        if out is not None and len(k) > 3: out = [o for o in out if o[1] != 'rejected']
        return kname, out, raw
    with ThreadPoolExecutor(8) as ex: rs = list(ex.map(one, K_CONFIGS))
    excluded = 0
    for kname, out, raw in rs:
        if out is None: res['errors'].append('consteval TU failed to compile on %s:\n%s' % (kname, raw)); continue
        per_cfg[kname] = len(cases) - len(out)
        for i, kind, msg in out:
            ki = is_known(cases[i], kname)
            if ki is not None: res['known_hits'][ki] = res['known_hits'].get(ki, 0) + 1; excluded += 1; continue
            fails.setdefault(i, []).append((kname, kind, msg))
    # report at most two distinct entries, the case with the smallest arguments each
    by_entry = {}
    for i, lst in fails.items():
        n_ = cases[i][0]; key = sum(abs(x) for x in cases[i][1:4])
        if n_ not in by_entry or key < by_entry[n_][0]: by_entry[n_] = (key, i, lst)
    for n_, (key, i, lst) in sorted(by_entry.items(), key=lambda kv: kv[1][0])[:3]:
        kname, kind, msg = lst[0]
        what = ('%s(%d,%d,%d) returns %d at run time but is %s in a constant expression on %s: %s' % (cases[i][0], cases[i][1], cases[i][2], cases[i][3], cases[i][4], 'not accepted' if kind == 'rejected' else 'evaluated to a different value', ', '.join(k for k, _, _ in lst), msg))
        res['violations'].append(dict(property=prop, kind='ce', clause=cid, entry=cases[i][0], args=list(cases[i][1:4]), expected=cases[i][4], cfg=kname, kconfigs=[k for k, _, _ in lst], what=what, tier=tier, seed=seed, failing_entries=sorted(by_entry)))
    nt = set(c for c in cases if max(abs(c[1]), abs(c[2]), abs(c[3])) >= 2**30)
    res['evidence'] = dict(id=cid, engine='generated constant-evaluation programs', evaluations=len(cases), executions=len(cases) * len(K_CONFIGS), distinct_nontrivial=len(nt), exhaustive=False, excluded_known=excluded,
        rule=('cases drawn by the C07 generator (arguments incl. +-NaN, the band next to +-MAXF, full-range integers, negative shift counts): the constant evaluators of GCC and Clang must reject undefined behaviour, so a case that returns normally at run time but is rejected at compile time is an independent witness of UB (or of a non-constexpr path); ' if gen == 'c07' else '') + 'cases drawn by the C08.diff generator for every entry point expected to be usable in a constant expression (all but the compiled table functions and detail::sqrt_std_math), restricted to cases on which all run-time builds agree; each case becomes `static_assert(ce_<entry>(a,b,c) == <run-time value>)` in a generated translation unit compiled with GCC and Clang in c++17+abacus, c++20 and c++2b; a rejected (not a constant expression) or mismatching assertion is a violation; non-trivial = an argument with |value| >= 2^30',
        accepted_per_configuration=per_cfg, emit_stats=stats,
        samples=[dict(entry=c[0], args=list(c[1:4]), runtime_value=c[4]) for c in (list(nt)[:3] + cases[:3])])
    return res
CET_CLAUSES = ['C12.inrc', 'C01.addsub', 'C02.mulff', 'C02.mulint', 'C03.divff', 'C03.divint', 'C16.int', 'C18.shift', 'C15.floorceil', 'C14.hypot', 'C11.atan2', 'C13.sqrtrc', 'C04.toint', 'C04.fromint', 'C10.rel', 'C09.period']
def cet_engine(env):
    # targeted constant evaluation: the same E4 machinery, driven by each property clause's own generator
    out = dict(violations=[], errors=[], known_hits={}); tot = 0; dn = 0; per = {}; samples = []
    for cl in CET_CLAUSES:
        r = ce_engine(env, gen='clause', clause=cl, cid='C08.cet', n=(800 if env['tier'] == 'quick' else 12000))
        out['violations'] += r.get('violations', [])[:1]; out['errors'] += r.get('errors', [])
        e = r.get('evidence') or {}; tot += e.get('evaluations', 0); dn += e.get('distinct_nontrivial', 0); per[cl] = e.get('evaluations', 0); samples += e.get('samples', [])[:1]
        if len(out['violations']) >= 3: break
    out['evidence'] = dict(id='C08.cet', engine='generated constant-evaluation programs, targeted', evaluations=tot, executions=tot * len(K_CONFIGS), distinct_nontrivial=dn, exhaustive=False,
        rule='as C08.ce, but the cases come from the targeted generators of the property clauses %s (product- and quotient-targeted operand pairs, planted windows, type limits, pole sets), mapped onto the corresponding entry point; compile-time value must equal the run-time value on 6 compile-time configurations' % ', '.join(CET_CLAUSES), cases_per_clause=per, samples=samples)
    return out
CHECKS['C08']['extra'] = [ce_engine, cet_engine]
def make_prop_cet(clauses):
    # the owning property's own clauses evaluated at compile time: a value that is right at run time (exact model)
    # but different or rejected in a constant expression violates the property for that evaluation mode
    def engine(env):
        out = dict(violations=[], errors=[], known_hits={}); tot = 0; dn = 0; samples = []
        for cl in clauses:
            r = ce_engine(env, gen='clause', clause=cl, cid=env['prop'] + '.cet', n=(1500 if env['tier'] == 'quick' else 12000))
            out['violations'] += r.get('violations', [])[:1]; out['errors'] += r.get('errors', [])
            e = r.get('evidence') or {}; tot += e.get('evaluations', 0); dn += e.get('distinct_nontrivial', 0); samples += e.get('samples', [])[:1]
        out['evidence'] = dict(id=env['prop'] + '.cet', engine='generated constant-evaluation programs, targeted', evaluations=tot, executions=tot * len(K_CONFIGS), distinct_nontrivial=dn, exhaustive=False,
            rule='cases from the generators of %s compiled as static_assert(ce_<entry>(args) == run-time value) with GCC and Clang in c++17+abacus / c++20 / c++2b: the run-time value is judged by the exact oracle of the clause, the compile-time value must equal it' % ', '.join(clauses), samples=samples)
        return out
    return engine
for _p, _cl in {'C01': ['C01.addsub'], 'C02': ['C02.mulff', 'C02.mulint'], 'C03': ['C03.divff', 'C03.divint'], 'C04': ['C04.toint', 'C04.fromint'], 'C11': ['C11.atan2'], 'C13': ['C13.sqrtrc'], 'C14': ['C14.hypot'], 'C15': ['C15.floorceil'], 'C16': ['C16.int'], 'C18': ['C18.shift'], 'C12': ['C12.inrc'], 'C10': ['C10.rel'], 'C09': ['C09.period']}.items():
    CHECKS[_p].setdefault('extra', []).append(make_prop_cet(_cl))
CHECKS['C07'].setdefault('extra', []).append(lambda env: ce_engine(env, gen='c07', clause='C07.entry', cid='C07.ce'))

# ----------------------------------------------------------------------------- engine E3: libFuzzer
import glob, shutil, time
FUZZ_FLAGS = ['-fsanitize=fuzzer-no-link,address', '-O1', '-g0', '-fno-omit-frame-pointer']
def _sha(paths, extra=''):
    h = hashlib.sha256(extra.encode())
    for p in sorted(paths): h.update(p.encode()); h.update(open(p, 'rb').read())
    return h.hexdigest()[:16]
def build_fuzz_harness(root, build, jobs, log):
    srcs = [s for s in sorted(glob.glob(os.path.join(root, 'harness', '*.cc'))) if not s.endswith('/main.cc')] + [os.path.join(root, 'fuzz', 'fuzz_main.cc')]
    deps = srcs + glob.glob(os.path.join(root, 'harness', '*.hpp')) + [os.path.join(root, 'cut', 'entries.def'), os.path.join(root, 'cut', 'cut_api.h')]
    out = os.path.join(build, 'fuzzh-' + _sha(deps, 'fuzzh-v1'))
    if os.path.exists(os.path.join(out, '.done')): return out
    os.makedirs(out, exist_ok=True); t0 = time.time()
    def cc(src):
        obj = os.path.join(out, os.path.basename(src)[:-3] + '.o')
        r = subprocess.run(['clang++', '-std=gnu++17'] + FUZZ_FLAGS + ['-c', src, '-o', obj], stdout=subprocess.PIPE, stderr=subprocess.STDOUT, text=True)
        if r.returncode: raise SystemExit('fuzz harness build failed: %s\n%s' % (src, r.stdout[-3000:]))
    with ThreadPoolExecutor(jobs) as ex: list(ex.map(cc, srcs))
    open(os.path.join(out, '.done'), 'w').write('ok')
    for d in glob.glob(os.path.join(build, 'fuzzh-*')):
        if d != out: shutil.rmtree(d, ignore_errors=True)
    log('built fuzz harness objects in %.1fs' % (time.time() - t0))
    return out
def build_fuzz_target(env):
    import verif
    hdir = build_fuzz_harness(env['root'], os.path.join(env['root'], 'build'), env['jobs'], env['log'])
    cdir = verif.cut_dir(); os.makedirs(cdir, exist_ok=True)
    exe = os.path.join(cdir, 'fuzz_target_' + os.path.basename(hdir))
    if os.path.exists(exe): return exe
    inc = ['-I' + os.path.join(env['repo'], 'fixed_lib', 'include'), '-I' + os.path.join(env['root'], 'cut')]
    objs = []
    for src, extra in ((os.path.join(env['root'], 'cut', 'cut_main.cc'), ['-DCUT_CONFIG="fuzz-clang++-O1-c++17"']), (os.path.join(env['repo'], 'fixed_lib', 'src', 'fixed_math.cc'), [])):
        obj = os.path.join(cdir, 'fz_' + os.path.basename(src)[:-3] + '.o'); objs.append(obj)
        r = subprocess.run(['clang++', '-std=c++17', '-w', '-D%s=1' % verif.GUARD] + FUZZ_FLAGS + [verif.SAN, '-D_GLIBCXX_ASSERTIONS'] + inc + extra + ['-c', src, '-o', obj], stdout=subprocess.PIPE, stderr=subprocess.STDOUT, text=True)
        if r.returncode: raise SystemExit('fuzz CUT build failed: %s\n%s' % (src, r.stdout[-3000:]))
    ub = os.path.join(cdir, 'fz_ub_handlers.o')
    r = subprocess.run(['clang', '-O1', '-c', os.path.join(env['root'], 'fuzz', 'ub_report.c'), '-o', ub], stdout=subprocess.PIPE, stderr=subprocess.STDOUT, text=True)
    if r.returncode: raise SystemExit('ub_handlers build failed\n' + r.stdout)
    r = subprocess.run(['clang++', '-fsanitize=fuzzer,address,undefined', '-o', exe + '.tmp'] + glob.glob(os.path.join(hdir, '*.o')) + objs + [ub], stdout=subprocess.PIPE, stderr=subprocess.STDOUT, text=True)
    if r.returncode: raise SystemExit('fuzz link failed\n' + r.stdout[-3000:])
    os.replace(exe + '.tmp', exe)
    return exe
def make_fuzz_engine(clauses, quick_runs, thorough_runs, quick_procs=8, thorough_procs=16):
    def engine(env):
        import verif
        prop, tier, seed = env['prop'], env['tier'], env['seed']
        res = dict(violations=[], errors=[], known_hits={})
        t0 = time.time()
        exe = build_fuzz_target(env)
        nproc = min(env['jobs'], quick_procs if tier == 'quick' else thorough_procs); runs = quick_runs if tier == 'quick' else thorough_runs
        fdir = os.path.join(env['work'], 'fuzz'); os.makedirs(fdir, exist_ok=True)
        seeds = os.path.join(env['root'], 'corpus')
        procs = []
        for i in range(nproc):
            d = os.path.join(fdir, 'p%d' % i); os.makedirs(os.path.join(d, 'corpus'), exist_ok=True); os.makedirs(os.path.join(d, 'art'), exist_ok=True)
            if i % 2 == 0 and os.path.isdir(seeds):          # half the processes start from the committed seed corpus, half from an empty one
                for f in glob.glob(os.path.join(seeds, '*')): shutil.copy(f, os.path.join(d, 'corpus'))
            e = dict(os.environ, FUZZ_CLAUSES=clauses[i % len(clauses)], FUZZ_KF=env['kf_txt'], FUZZ_STATS=os.path.join(d, 'stats'), ASAN_OPTIONS='detect_leaks=0:abort_on_error=1:symbolize=0:allocator_may_return_null=1', UBSAN_OPTIONS='print_stacktrace=0:symbolize=0:report_error_type=1')
            argv = [exe, '-seed=%d' % (1 + (seed * 7919 + i * 104729) % 2000000000), '-runs=%d' % runs, '-max_len=1600', '-len_control=0', '-use_value_profile=1', '-print_final_stats=1', '-artifact_prefix=' + os.path.join(d, 'art') + '/', os.path.join(d, 'corpus')]
            procs.append((d, subprocess.Popen(argv, stdout=open(os.path.join(d, 'log'), 'w'), stderr=subprocess.STDOUT, env=e)))
        total_exec = 0; cov = []; arts = []
        for d, p in procs:
            try: p.wait(timeout=7200)
            except subprocess.TimeoutExpired: p.kill()
            logtxt = open(os.path.join(d, 'log'), errors='replace').read()
            m = re.search(r'stat::number_of_executed_units:\s*(\d+)', logtxt)
            if m: total_exec += int(m.group(1))
            m2 = re.findall(r'cov: (\d+) ft: (\d+) corp: (\d+)', logtxt)
            if m2: cov.append(tuple(int(x) for x in m2[-1]))
            for a in glob.glob(os.path.join(d, 'art', 'crash-*')): arts.append((a, logtxt, clauses[procs.index((d, p)) % len(clauses)]))
        # artifacts -> ordinary cases -> 3x replay on the property's configurations
        sos = [env['paths'][k] for k in sorted(env['paths'])]
        seen = set(); notrepro = 0
        for a, logtxt, pclause in arts:
            r = subprocess.run([env['exe'], 'decode-fuzz', pclause, a, sos[0]], stdout=subprocess.PIPE, text=True)
            try: case = json.loads(r.stdout.strip() or '{}')
            except Exception: case = {}
            if not case: continue
            key = (case['clause'], tuple(case['args']))
            if key in seen: continue
            seen.add(key)
            fam_s = [s for s in sos if '/cut_S-' in s]; fam_r = [s for s in sos if '/cut_S-' not in s]
            use = fam_s if (case['clause'].startswith('C07.entry') and fam_s) else (fam_r or sos)
            # minimise through the ordinary path first (integer shrinker, step deletion for histories)
            rmin = subprocess.run([env['exe'], 'minimize', case['clause'], '--args', ','.join(str(x) for x in case['args']), '--kf', env['kf_txt']] + use, stdout=subprocess.PIPE, stderr=subprocess.DEVNULL, text=True)
            try:
                margs = json.loads(rmin.stdout.strip().splitlines()[-1])
                if isinstance(margs, list) and margs: case['args'] = margs
            except Exception: pass
            ok3 = True; outp = ''
            for _ in range(3):
                rc_, outp = verif.do_replay(env['exe'], case['clause'], case['args'], use, env['kf_txt'])
                if rc_ != 1: ok3 = False
            if not ok3:
                notrepro += 1
                # a semantic failure (the oracle inside the target fired) must reproduce; a sanitizer-only crash may not
                # ... but then it must crash the instrumented target again, 3 times out of 3, to be reported
                e2 = dict(os.environ, FUZZ_CLAUSES=pclause, FUZZ_KF=env['kf_txt'], ASAN_OPTIONS='detect_leaks=0:abort_on_error=1:symbolize=0', UBSAN_OPTIONS='print_stacktrace=0:symbolize=0')
                rr = [subprocess.run([exe, a], env=e2, stdout=subprocess.PIPE, stderr=subprocess.STDOUT, text=True) for _ in range(3)]
                if all(x.returncode != 0 for x in rr):
                    if len(res['violations']) < 2:
                        tail = rr[0].stdout[-1500:]
                        msg = re.search(r'(ERROR: AddressSanitizer: [^\n]*|FUZZ-FAIL[^\n]*|runtime error: [^\n]*|ERROR: libFuzzer: [^\n]*)', rr[0].stdout)
                        res['violations'].append(dict(property=prop, kind='fuzzart', clause=case['clause'], args=case['args'], fuzz_clause=pclause, artifact_hex=open(a, 'rb').read().hex(), cfg='fuzz-clang++-O1-c++17 (ASan+UBSan)', what='%s%s does not return normally in the instrumented build: %s [found by libFuzzer; not visible to the uninstrumented builds]' % (case['clause'], tuple(case['args']), msg.group(1) if msg else 'crash'), replay_output=tail, tier=tier, seed=seed))
                elif 'FUZZ-FAIL' in logtxt: res['errors'].append('fuzz artifact %s (%s %s) failed inside the target once but neither through replay nor on re-execution:\n%s' % (a, case['clause'], case['args'], outp[-600:]))
                continue
            if len(res['violations']) < 2:
                m = re.search(r'FAIL on (\S+): (.*)', outp)
                res['violations'].append(dict(property=prop, clause=case['clause'], args=case['args'], cfg=m.group(1) if m else '?', what=(m.group(2) if m else 'fuzz artifact reproduces') + ' [found by libFuzzer]', configs=[os.path.basename(s)[4:-3] for s in use], replay_output=outp, tier=tier, seed=seed))
        fz_samples = []
        for i, (d, p) in enumerate(procs[:4]):
            for f in sorted(glob.glob(os.path.join(d, 'corpus', '*')), key=os.path.getsize, reverse=True)[:2]:
                r = subprocess.run([env['exe'], 'decode-fuzz', clauses[i % len(clauses)], f, sos[0]], stdout=subprocess.PIPE, text=True)
                try:
                    cs = json.loads(r.stdout.strip() or '{}')
                    if cs: cs['origin'] = 'libFuzzer corpus unit (%d bytes) of process %d' % (os.path.getsize(f), i); fz_samples.append(cs)
                except Exception: pass
        ev_cases = 0; ev_nt = 0
        for d, p in procs:
            try: a, b, c_ = open(os.path.join(d, 'stats')).read().split(); ev_cases += int(a); ev_nt += int(b)
            except Exception: pass
        res['evidence'] = dict(id='%s.fuzz' % prop, engine='libFuzzer (coverage + value profile), oracles inside the target', evaluations=total_exec, executions=total_exec,
            distinct_nontrivial=max(c_[2] for c_ in cov) if cov else 0, exhaustive=False,
            rule='libFuzzer drives the word-stream decoders of clauses %s (one clause per process, round robin; in this mode half of the fixed_t operands are taken verbatim from the input words so that compare tracing can plant the constants the library compares against) against the library compiled with clang -O1, ASan, the UBSan checks (stock runtime observed through __ubsan_on_report) and coverage instrumentation; %d processes x %d runs, half seeded from /verif/corpus and half from an empty corpus; only crash artifacts count, each is decoded back into (clause, arguments) and must reproduce 3x through the ordinary replay path; distinct non-trivial cases are counted conservatively as the size of the largest final corpus (inputs that each reached new coverage or value-profile features)' % (', '.join(clauses), nproc, runs),
            processes=nproc, runs_per_process=runs, final_cov_ft_corpus=cov, artifacts=len(arts), artifacts_not_reproduced=notrepro, cases_judged_by_oracle=ev_cases, nontrivial_cases=ev_nt, wall_s=round(time.time() - t0, 1),
            samples=fz_samples)
        return res
    return engine
FUZZ_PLAN = {   # property: (clauses, quick runs per process, thorough runs per process)
 'C01': (['C01.addsub', 'C01.shape'], 800000, 8000000), 'C02': (['C02.mulff', 'C02.mulint'], 800000, 8000000),
 'C03': (['C03.divff', 'C03.divint'], 600000, 8000000), 'C04': (['C04.fromint', 'C04.toint'], 400000, 4000000),
 'C05': (['C05.f32', 'C05.f64', 'C05.tofp'], 600000, 6000000), 'C06': (['C06.cmp', 'C06.unary'], 800000, 6000000),
 'C07': (['C07.entry'], 120000, 1500000), 'C09': (['C09.period'], 600000, 6000000), 'C10': (['C10.rel'], 600000, 6000000),
 'C11': (['C11.atan2', 'C11.mono'], 600000, 6000000), 'C12': (['C12.out'], 400000, 3000000), 'C13': (['C13.sqrtrc'], 600000, 6000000),
 'C14': (['C14.hypot'], 600000, 8000000), 'C15': (['C15.floorceil'], 800000, 6000000), 'C16': (['C16.int', 'C16.f32', 'C16.f64'], 200000, 2000000),
 'C17': (['C17.laws', 'C17.hist'], 400000, 4000000), 'C18': (['C18.shift', 'C18.and'], 800000, 6000000), 'C19': (['C19.angle'], 600000, 4000000),
 'C20': (['C20.a2r'], 400000, 3000000),
}
for _p, (_cl, _q, _t) in FUZZ_PLAN.items():
    CHECKS[_p].setdefault('extra', []).append(make_fuzz_engine(_cl, _q, _t))

def setup_extra(env):
    build_fuzz_harness(env['root'], env['build'], env['jobs'], env['log'])

def replay_extra(v, env):
    if v.get('kind') == 'ce':
        import tempfile
        env = dict(env); env['work'] = tempfile.mkdtemp(prefix='fmv-ce-')
        bad = 0
        for k in K_CONFIGS:
            kname = '%s-%s%s%s' % (k[0], k[1], '-abacus' if k[2] else '', '-plain' if len(k) > 3 else '')
            if kname not in v.get('kconfigs', [kname]): continue
            out, raw = ce_compile(env, k, [(v['entry'], v['args'][0], v['args'][1], v['args'][2], v['expected'])], 'replay')
            if out is not None and len(k) > 3: out = [o for o in out if o[1] != 'rejected']
            if out is None or out: bad += 1; print('REPLAY C08.ce %s%s on %s: FAIL\n%s' % (v['entry'], tuple(v['args']), kname, raw[-1500:]))
            else: print('REPLAY C08.ce %s%s on %s: PASS' % (v['entry'], tuple(v['args']), kname))
        import shutil; shutil.rmtree(env['work'], ignore_errors=True)
        return 1 if bad else 0
    if v.get('kind') == 'fuzzart':
        import tempfile
        env = dict(env); env['jobs'] = os.cpu_count() or 8
        exe = build_fuzz_target(env)
        tmp = tempfile.mkdtemp(prefix='fmv-fa-'); art = os.path.join(tmp, 'artifact'); open(art, 'wb').write(bytes.fromhex(v['artifact_hex']))
        e2 = dict(os.environ, FUZZ_CLAUSES=v['fuzz_clause'], ASAN_OPTIONS='detect_leaks=0:abort_on_error=1:symbolize=0', UBSAN_OPTIONS='print_stacktrace=0:symbolize=0')
        r = subprocess.run([exe, art], env=e2, stdout=subprocess.PIPE, stderr=subprocess.STDOUT, text=True)
        print(r.stdout[-2000:]); shutil.rmtree(tmp, ignore_errors=True)
        print('REPLAY %s %s in the instrumented fuzz build: %s' % (v['clause'], v['args'], 'FAIL' if r.returncode else 'PASS'))
        return 1 if r.returncode else 0
    raise SystemExit('unknown replay kind %r' % v.get('kind'))
