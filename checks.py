"""Which clauses decide which property, with their quick/thorough budgets."""
ASSUMPTIONS = [
    "GCC 12.2 / Clang 14.0.6 on x86-64 with libstdc++ 12 are the compilers the configuration quantifier ranges over",
    "the oracle is an exact model over GCC's __int128 and glibc long-double libm; it includes no repository header",
    "code under test = thin extern \"C\" wrappers (cut/cut_main.cc) compiled from the current working tree, one shared object per build configuration",
    "exploration never establishes absence: inputs outside the enumerated / generated classes are not covered",
]

def rc(id, nq, nt, family='R', **kw):
    d = dict(id=id, family=family, quick=dict(n=nq), thorough=dict(n=nt)); d.update(kw); return d
def sweep(id, family='R', **kw):
    d = dict(id=id, family=family, quick=dict(n=0), thorough=dict(n=0)); d.update(kw); return d

CHECKS = {
 'C01': dict(
    rule="generated pairs of finite raw values (independent and result-targeted) x {+,-,+=,-=} and 17 inlined call shapes, each evaluated on every build configuration (8 quick / 32 thorough: GCC and Clang, -O0..-O3, c++17/20/2b); non-trivial = the exact result leaves [lowest,max] or lies within 2^17 of the limit; distinctness = 64-bit hash of (clause, arguments)",
    clauses=[rc('C01.addsub', 400000, 40000000), rc('C01.shape', 400000, 40000000)],
    floors={'C01.addsub': {'overflow': 0.10, 'at-boundary+-3': 0.01}, 'C01.shape': {'overflow': 0.10}}),
}

def setup_extra(env):
    pass

def replay_extra(v, env):
    raise SystemExit('unknown replay kind %r' % v.get('kind'))
