#!/usr/bin/env python3
"""Systematic mutation sweep: token-level mutants of the library sources (relational operators,
+/-, && / ||, shift direction, integer literals +-1), each on a scratch copy; mutants that still
compile are run through the repository's own suite and through all 20 checks at a reduced quick
budget (VERIF_SCALE, no fuzz/consteval). Output: mutants/SWEEP.json - one record per mutant with
suite result and the list of checks that report a violation. Survivors are triaged by hand in
DESIGN.md (equivalent / outside every property's domain / gap -> check strengthened).

  tools/mutation_sweep.py [--files a,b] [--max N] [--scale 0.05] [--jobs 2] [--resume]
"""
import json, os, re, shutil, subprocess, sys, tempfile, time, hashlib
from concurrent.futures import ThreadPoolExecutor
ROOT = os.path.dirname(os.path.dirname(os.path.abspath(__file__)))
FILES = ['fixed_lib/include/fixedmath/math.h', 'fixed_lib/include/fixedmath/detail/common.h', 'fixed_lib/include/fixedmath/types.h', 'fixed_lib/src/fixed_math.cc', 'fixed_lib/include/fixedmath/limits.h', 'fixed_lib/include/fixedmath/numbers.h']
def mutations_of(line):
    """yield (description, new_line) for one source line"""
    code = line.split('//')[0]
    if not code.strip() or code.strip().startswith(('#', '*', '/*', 'template', 'typename', '[[', 'using', 'namespace', 'static_assert', 'struct', '{', '}')): return
    def sub_at(m, rep): return line[:m.start()] + rep + line[m.end():]
    rel = {'<=': '<', '>=': '>', '==': '!=', '!=': '=='}
    for m in re.finditer(r'<=|>=|==|!=', code):
        if 'template' in code or 'enable_if' in code: break
        yield ('%s -> %s' % (m.group(0), rel[m.group(0)]), sub_at(m, rel[m.group(0)]))
    for m in re.finditer(r'(?<=[\w\)\]\s])\s(<|>)\s(?=[\w\(\-])', code):
        if 'template' in code or 'enable_if' in code or '<<' in code[m.start()-1:m.end()+1] or '>>' in code[m.start()-1:m.end()+1]: continue
        yield ('%s -> %s=' % (m.group(1), m.group(1)), line[:m.start(1)] + m.group(1) + '=' + line[m.end(1):])
    for m in re.finditer(r'(?<=[\w\)\]])\s([+\-])\s(?=[\w\(])', code):
        yield ('%s -> %s' % (m.group(1), '-' if m.group(1) == '+' else '+'), line[:m.start(1)] + ('-' if m.group(1) == '+' else '+') + line[m.end(1):])
    for m in re.finditer(r'&&|\|\|', code):
        yield ('%s -> %s' % (m.group(0), '||' if m.group(0) == '&&' else '&&'), sub_at(m, '||' if m.group(0) == '&&' else '&&'))
    for m in re.finditer(r'(?<![<>])(<<|>>)(?![<>=])\s*(?=[\w\(])', code):
        if 'cout' in code or 'template' in code or 'operator' in code: continue
        yield ('%s -> %s' % (m.group(1), '>>' if m.group(1) == '<<' else '<<'), line[:m.start(1)] + ('>>' if m.group(1) == '<<' else '<<') + line[m.end(1):])
    for m in re.finditer(r'(?<![\w\.])(0x[0-9a-fA-F]+|\d+)(?![\w\.])', code):
        lit = m.group(1)
        try: v = int(lit, 0)
        except ValueError: continue
        if 'prec_' in code and v in (16,) and '<<' not in code: pass
        for d in (1, -1):
            nv = v + d
            if nv < 0: continue
            rep = hex(nv) if lit.startswith('0x') else str(nv)
            yield ('%s -> %s' % (lit, rep), sub_at(m, rep))
def all_mutants(files):
    out = []
    for f in files:
        lines = open(os.path.join('/repo', f)).read().split('\n'); incomment = False
        for i, l in enumerate(lines):
            if '/*' in l and '*/' not in l: incomment = True
            if incomment:
                if '*/' in l: incomment = False
                continue
            if f.endswith('math.h') and i < 44: continue
            for desc, nl in mutations_of(l):
                if nl != l: out.append(dict(file=f, line=i + 1, desc=desc, old=l.strip(), new=nl.strip(), newline=nl))
    return out
def run_one(mu, scale, jobs):
    tmp = tempfile.mkdtemp(prefix='fm-sw-'); rec = dict(file=mu['file'], line=mu['line'], desc=mu['desc'], old=mu['old'], new=mu['new'])
    try:
        subprocess.run('git -C /repo archive HEAD | tar -x -C %s' % tmp, shell=True, check=True)
        p = os.path.join(tmp, mu['file']); lines = open(p).read().split('\n'); lines[mu['line'] - 1] = mu['newline']; open(p, 'w').write('\n'.join(lines))
        r = subprocess.run(['g++', '-std=c++17', '-fsyntax-only', '-w', '-I' + os.path.join(tmp, 'fixed_lib/include'), '-I' + os.path.join(ROOT, 'cut'), os.path.join(ROOT, 'cut', 'cut_main.cc'), os.path.join(tmp, 'fixed_lib/src/fixed_math.cc')], stdout=subprocess.PIPE, stderr=subprocess.STDOUT, text=True)
        if r.returncode: rec['compiles'] = False; return rec
        rec['compiles'] = True
        r = subprocess.run([os.path.join(ROOT, 'tools', 'suite_on_tree.sh'), tmp], stdout=subprocess.PIPE, stderr=subprocess.STDOUT, text=True); rec['suite'] = 'pass' if r.returncode == 0 else 'fail'
        out = tempfile.mkdtemp(prefix='fm-sw-out-'); killed = []; errors = []
        env = dict(os.environ, VERIF_REPO=tmp, VERIF_OUT=out, VERIF_SCALE=str(scale), VERIF_NOEXTRA='1', VERIF_JOBS=str(jobs), VERIF_WORKER_TIMEOUT='90')
        order = ['C01', 'C02', 'C03', 'C04', 'C05', 'C15', 'C18', 'C06', 'C16', 'C17', 'C09', 'C10', 'C11', 'C12', 'C13', 'C14', 'C19', 'C20', 'C07', 'C08']
        for pid in order:
            if killed and not ALLCHECKS: break     # the sweep looks for survivors: stop at the first check that reports the mutant
            r = subprocess.run([sys.executable, os.path.join(ROOT, 'verif.py'), 'check', pid, '--tier', 'quick'], stdout=subprocess.PIPE, stderr=subprocess.PIPE, text=True, env=env)
            if r.returncode == 1 and 'VIOLATION' in r.stdout: killed.append(pid)
            elif 'exited 124' in r.stderr: killed.append(pid + '(hang)')      # a library call that does not return within 90 s
            elif r.returncode not in (0, 1): errors.append(pid)
        rec['killed_by'] = killed; rec['errors'] = errors
        shutil.rmtree(out, ignore_errors=True)
    finally:
        shutil.rmtree(tmp, ignore_errors=True)
    return rec
ALLCHECKS = False
def main():
    global ALLCHECKS
    import argparse
    ap = argparse.ArgumentParser(); ap.add_argument('--files', default=','.join(FILES)); ap.add_argument('--max', type=int, default=0); ap.add_argument('--scale', type=float, default=0.05); ap.add_argument('--jobs', type=int, default=2); ap.add_argument('--resume', action='store_true'); ap.add_argument('--stride', type=int, default=1); ap.add_argument('--all-checks', action='store_true')
    A = ap.parse_args(); ALLCHECKS = A.all_checks
    mus = all_mutants(A.files.split(','))
    mus = mus[::A.stride]
    if A.max: mus = mus[:A.max]
    outp = os.path.join(ROOT, 'mutants', 'SWEEP.json'); done = {}
    if A.resume and os.path.exists(outp):
        for r in json.load(open(outp)):
            if not r.get('errors'): done[(r['file'], r['line'], r['desc'], r['new'])] = r     # records with machinery errors are re-run
    todo = [m for m in mus if (m['file'], m['line'], m['desc'], m['new']) not in done]
    print('%d mutants, %d to run' % (len(mus), len(todo)), flush=True)
    per = max(1, (os.cpu_count() or 8) // A.jobs); res = list(done.values()); t0 = time.time()
    with ThreadPoolExecutor(A.jobs) as ex:
        for k, rec in enumerate(ex.map(lambda m: run_one(m, A.scale, per), todo)):
            res.append(rec)
            print('[%d/%d %.0fs] %s:%d %s | %s | suite=%s killed_by=%s' % (k + 1, len(todo), time.time() - t0, os.path.basename(rec['file']), rec['line'], rec['desc'], 'no-compile' if not rec.get('compiles') else 'ok', rec.get('suite'), ','.join(rec.get('killed_by', []))), flush=True)
            if k % 10 == 9: json.dump(res, open(outp, 'w'), indent=1)
    json.dump(res, open(outp, 'w'), indent=1)
main()
