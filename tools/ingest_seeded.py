#!/usr/bin/env python3
"""Ingest the changes delivered by the independent sub-agents (/tmp/wt-Cxx/seeded/) into
/verif/seeded/<id>/ after confirming, in a scratch copy of the repository, that each one
(a) applies, (b) still passes the repository's 39 tests, (c) makes its demonstration fail while the
demonstration passes on the unchanged tree. Writes meta.json with what was run."""
import json, os, re, shutil, subprocess, sys, tempfile
ROOT = os.path.dirname(os.path.dirname(os.path.abspath(__file__)))
NEEDS = json.load(open(os.path.join(ROOT, 'seeded', 'needs.json'))) if os.path.exists(os.path.join(ROOT, 'seeded', 'needs.json')) else {}
def sh(cmd, **kw): return subprocess.run(cmd, shell=True, stdout=subprocess.PIPE, stderr=subprocess.STDOUT, text=True, **kw)
def compile_cmd(demo, wt, tree, exe):
    first = open(demo).readline().strip().lstrip('/').strip()
    cmd = first.split('&&')[0].strip()
    cmd = re.sub(r'\(.*$', '', cmd)
    cmd = re.sub(r'-o\s+\S+', '', cmd)
    cmd = re.sub(r'(?<![\w/])demo\d\.cc', demo, cmd)
    cmd = re.sub(re.escape(wt) + r'/seeded/demo\d\.cc', demo, cmd).replace(wt, tree)
    return cmd + ' -o ' + exe
def main():
    import argparse
    ap = argparse.ArgumentParser(); ap.add_argument('--src', default='/tmp/wt-'); ap.add_argument('--tag', default=''); ap.add_argument('--n', type=int, default=2); ap.add_argument('ids', nargs='*', type=int)
    A = ap.parse_args()
    for i in (A.ids or range(1, 21)):
        pid = 'C%02d' % i; wt = A.src + pid; sd = os.path.join(wt, 'seeded')
        if not os.path.isdir(sd): continue
        for n in range(1, A.n + 1):
            patch = os.path.join(sd, 'patch%d.diff' % n); demo = os.path.join(sd, 'demo%d.cc' % n)
            if not (os.path.exists(patch) and os.path.exists(demo)): print(pid, n, 'missing'); continue
            sid = ('%s-%s%d' % (pid, A.tag, n)); dst = os.path.join(ROOT, 'seeded', sid); os.makedirs(dst, exist_ok=True)
            shutil.copy(patch, os.path.join(dst, 'patch.diff')); shutil.copy(demo, os.path.join(dst, 'demo.cc'))
            tmp = tempfile.mkdtemp(prefix='fm-ing-'); ran = []
            try:
                sh('git -C /repo archive HEAD | tar -x -C %s' % tmp)
                exe0 = os.path.join(tmp, 'demo_orig'); c0 = compile_cmd(os.path.join(dst, 'demo.cc'), wt, tmp, exe0)
                r = sh(c0); ok_build0 = r.returncode == 0
                r0 = sh('timeout 600 ' + exe0) if ok_build0 else None
                ran.append(dict(cmd=c0 + ' && ' + exe0, tree='unchanged', exit=(r0.returncode if r0 else 'build failed')))
                r = sh('git apply --whitespace=nowarn %s' % os.path.join(dst, 'patch.diff'), cwd=tmp); applies = r.returncode == 0
                rs = sh('%s %s' % (os.path.join(ROOT, 'tools', 'suite_on_tree.sh'), tmp)); suite = rs.returncode == 0
                ran.append(dict(cmd='tools/suite_on_tree.sh <patched tree>', exit=rs.returncode, out=rs.stdout.strip().splitlines()[-1] if rs.stdout.strip() else ''))
                exe1 = os.path.join(tmp, 'demo_mut'); c1 = compile_cmd(os.path.join(dst, 'demo.cc'), wt, tmp, exe1)
                r = sh(c1); ok_build1 = r.returncode == 0
                r1 = sh('timeout 600 ' + exe1) if ok_build1 else None
                ran.append(dict(cmd=c1 + ' && ' + exe1, tree='patched', exit=(r1.returncode if r1 else 'build failed'), tail=(r1.stdout[-400:] if r1 else r.stdout[-400:])))
                confirmed = applies and suite and r0 is not None and r0.returncode == 0 and r1 is not None and r1.returncode != 0
            finally:
                shutil.rmtree(tmp, ignore_errors=True)
            meta = dict(id=sid, property=pid, check_with=NEEDS.get(sid, {}).get('check_with', [pid]), needs=NEEDS.get(sid, {}).get('needs', ''), source='independent sub-agent given only the property text and a scratch worktree',
                        confirmed=confirmed, applies=applies, suite_passes=suite, demo_compile=compile_cmd(os.path.join(dst, 'demo.cc'), wt, '<tree>', 'demo').replace(dst + '/', ''), ran=ran)
            json.dump(meta, open(os.path.join(dst, 'meta.json'), 'w'), indent=1)
            print(sid, 'confirmed' if confirmed else 'NOT CONFIRMED', 'applies=%s suite=%s orig=%s mut=%s' % (applies, suite, r0.returncode if r0 else None, r1.returncode if r1 else None), flush=True)
main()
