#!/bin/bash
# Runs the repository's 39 compile-time tests (13 unittest headers x c++17+abacus / c++20 / c++2b,
# exactly the commands unit_tests/CMakeLists.txt registers with ctest) against the tree given as $1.
# Exit 0 when all 39 compile (i.e. every static_assert holds), 1 otherwise.
TREE=${1:-/repo}; INC=$TREE/fixed_lib/include; TMP=$(mktemp -d /tmp/fmsuite.XXXXXX); fail=0; n=0
for t in type_traits integral_type_convertions floating_point_type_convertions fixed_construction addition substraction multiplication division sqrt misc_functions sin tan atan; do
  printf '#include <fixedmath/unittests/%s.h>\nint main( int argc, char ** argv ) {return fixedmath::%s_unit_tests() ? EXIT_SUCCESS : EXIT_FAILURE; }\n' $t $t > $TMP/test_$t.cc
done
run() { if g++ "$@" >$TMP/log.$$.$BASHPID 2>&1; then :; else echo "FAILED: g++ $*"; tail -5 $TMP/log.$$.$BASHPID; return 1; fi; }
pids=()
for t in type_traits integral_type_convertions floating_point_type_convertions fixed_construction addition substraction multiplication division sqrt misc_functions sin tan atan; do
  ( run -std=c++17 -DFIXEDMATH_ENABLE_SQRT_ABACUS_ALGO -I$INC $TMP/test_$t.cc -o $TMP/t_${t}_17.o || exit 1
    run -std=c++20 -I$INC $TMP/test_$t.cc -o $TMP/t_${t}_20.o || exit 1
    run -std=c++2b -I$INC $TMP/test_$t.cc -o $TMP/t_${t}_2b.o || exit 1 ) &
  pids+=($!)
done
for p in "${pids[@]}"; do wait $p || fail=1; done
rm -rf $TMP
if [ $fail = 0 ]; then echo "suite: 39/39 passed on $TREE"; else echo "suite: FAILURES on $TREE"; fi
exit $fail
