#!/usr/bin/env python3
"""Second pass over mutants/SWEEP.json: survivors of the reduced-budget sweep are (1) classified as
dead code when the mutated line is not compiled in any configuration we can build, otherwise
(2) re-run against the checks that own the mutated function at the FULL quick budget (with the fuzz
and consteval engines). Writes mutants/SWEEP-survivors.json."""
import json, os, subprocess, sys, tempfile, shutil, re
ROOT = os.path.dirname(os.path.dirname(os.path.abspath(__file__)))
DEAD = {'fixed_lib/include/fixedmath/math.h': [(394, 400, 'portable fallback of multiply_overflow: not compiled by GCC/Clang'), (791, 793, '#if 0 block in sin'), (868, 877, 'detail::tan2_ is never instantiated'), (935, 949, '#if 0 alternative atan series'), (1084, 1101, '#else alternative asin series'), (103, 103, None)],
        'fixed_lib/include/fixedmath/detail/common.h': [(83, 92, 'detail::highest_pwr4 (loop variant) is never called')]}
OWN = {'fixed_lib/include/fixedmath/math.h': [(46, 46, ['C06']), (55, 66, ['C04', 'C16', 'C20']), (68, 71, ['C04']), (80, 94, ['C05', 'C16']), (101, 108, ['C04']), (116, 120, ['C05', 'C16']), (146, 157, ['C04', 'C05']), (161, 172, ['C06', 'C01']),
        (177, 203, ['C18']), (210, 231, ['C01', 'C17']), (233, 301, ['C16', 'C01']), (307, 332, ['C01', 'C17']), (334, 383, ['C16', 'C01']), (390, 492, ['C02', 'C16', 'C17']), (497, 584, ['C03', 'C16', 'C17']),
        (589, 605, ['C15']), (612, 617, ['C20']), (630, 692, ['C13', 'C08', 'C14', 'C12']), (697, 742, ['C14']), (745, 824, ['C09', 'C20']), (853, 930, ['C10', 'C20']), (954, 1029, ['C11']), (1031, 1051, ['C11']),
        (1064, 1083, ['C12']), (1107, 1152, ['C12']), (1155, 1170, ['C20']), (1177, 1208, ['C19', 'C07']), (1214, 1214, ['C07'])],
       'fixed_lib/src/fixed_math.cc': [(1, 200, ['C19', 'C07'])],
       'fixed_lib/include/fixedmath/detail/common.h': [(1, 200, ['C04', 'C13', 'C09', 'C10', 'C11', 'C12', 'C14'])],
       'fixed_lib/include/fixedmath/numbers.h': [(1, 40, ['C09', 'C10', 'C11', 'C12', 'C20', 'C07'])],
       'fixed_lib/include/fixedmath/limits.h': [(1, 100, ['C04', 'C05', 'C01', 'C06'])],
       'fixed_lib/include/fixedmath/types.h': [(1, 200, ['C06', 'C01'])]}
def main():
    res = json.load(open(os.path.join(ROOT, 'mutants', 'SWEEP.json')))
    surv = [r for r in res if r.get('compiles') and not r.get('killed_by') and not r.get('errors')]
    outp = os.path.join(ROOT, 'mutants', 'SWEEP-survivors.json'); done = {}
    if os.path.exists(outp):
        for r in json.load(open(outp)): done[(r['file'], r['line'], r['desc'], r['new'])] = r
    out = []
    for r in surv:
        key = (r['file'], r['line'], r['desc'], r['new'])
        if key in done: out.append(done[key]); continue
        r = dict(r); dead = None
        for lo, hi, why in DEAD.get(r['file'], []):
            if lo <= r['line'] <= hi:
                if why is None:   # line 103: only the commented-out part of the line is dead
                    if '/*' in r['old'] and r['old'].split('/*')[0].strip() == r['new'].split('/*')[0].strip(): dead = 'mutation inside a /* */ comment'
                else: dead = why
        if dead: r['triage'] = 'dead code: ' + dead; out.append(r); print(r['file'].split('/')[-1], r['line'], r['desc'], '->', r['triage'], flush=True); continue
        props = []
        for lo, hi, ps in OWN.get(r['file'], []):
            if lo <= r['line'] <= hi: props = ps
        tmp = tempfile.mkdtemp(prefix='fm-tr-'); o = tempfile.mkdtemp(prefix='fm-tr-out-'); killed = []
        try:
            subprocess.run('git -C /repo archive HEAD | tar -x -C %s' % tmp, shell=True, check=True)
            p = os.path.join(tmp, r['file']); lines = open(p).read().split('\n')
            src = open(os.path.join('/repo', r['file'])).read().split('\n')
            # re-derive the mutated line from old/new (records keep stripped text)
            lines[r['line'] - 1] = src[r['line'] - 1].replace(r['old'], r['new'])
            open(p, 'w').write('\n'.join(lines))
            for pid in props:
                env = dict(os.environ, VERIF_REPO=tmp, VERIF_OUT=o, VERIF_WORKER_TIMEOUT='600')
                q = subprocess.run([sys.executable, os.path.join(ROOT, 'verif.py'), 'check', pid, '--tier', 'quick'], stdout=subprocess.PIPE, stderr=subprocess.PIPE, text=True, env=env)
                if q.returncode == 1 and 'VIOLATION' in q.stdout:
                    m = re.search(r'violation: (.*)', q.stderr); killed.append(pid); r['first'] = m.group(1)[:300] if m else ''; break
        finally:
            shutil.rmtree(tmp, ignore_errors=True); shutil.rmtree(o, ignore_errors=True)
        r['full_quick_checked'] = props; r['full_quick_killed_by'] = killed
        r['triage'] = ('killed at the full quick budget by ' + ','.join(killed)) if killed else 'SURVIVES the full quick budget of ' + ','.join(props)
        out.append(r); print(r['file'].split('/')[-1], r['line'], r['desc'], '->', r['triage'], flush=True)
        json.dump(out, open(outp, 'w'), indent=1)
    json.dump(out, open(outp, 'w'), indent=1)
main()
