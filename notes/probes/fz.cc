#include <fixedmath/fixed_math.hpp>
#include <cstdio>
#include <cstdint>
#include <cstring>
#include <cstdlib>
using namespace fixedmath;
extern "C" void __ubsan_get_current_report_data(const char **, const char **, const char **, unsigned *, unsigned *, char **);
static int ub_seen=0; static char ub_desc[512];
extern "C" void __ubsan_on_report(void){ const char*k,*m,*f; unsigned l,c; char*a; __ubsan_get_current_report_data(&k,&m,&f,&l,&c,&a); snprintf(ub_desc,sizeof ub_desc,"%s %s:%u",k,f,l); ub_seen++; }
static bool isn(int64_t v){ return v==INT64_MAX || v==-INT64_MAX; }
extern "C" int LLVMFuzzerTestOneInput(const uint8_t*d,size_t n){
  if(n<16) return 0; int64_t a,b; memcpy(&a,d,8); memcpy(&b,d+8,8);
  if(a==INT64_MIN||b==INT64_MIN||isn(a)||isn(b)) return 0;
  ub_seen=0;
  volatile int64_t r=(as_fixed(a)/as_fixed(b)).v; (void)r;
  if(ub_seen){ fprintf(stderr,"UB in div a=%lld b=%lld : %s\n",(long long)a,(long long)b,ub_desc); __builtin_trap(); }
  return 0;
}
