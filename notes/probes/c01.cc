#include <fixedmath/fixed_math.hpp>
#include <cstdio>
#include <cstdint>
#include <random>
using namespace fixedmath;
using i128 = __int128;
static const int64_t MAXF = 0x7FFFFFFFFFFFFFFEll;
extern "C" __attribute__((noinline)) int64_t add_w(int64_t a, int64_t b){ return (as_fixed(a)+as_fixed(b)).v; }
extern "C" __attribute__((noinline)) int64_t sub_w(int64_t a, int64_t b){ return (as_fixed(a)-as_fixed(b)).v; }
extern "C" __attribute__((noinline)) int64_t mul_w(int64_t a, int64_t b){ return (as_fixed(a)*as_fixed(b)).v; }
static bool isn(int64_t v){ return v==INT64_MAX || v==-INT64_MAX; }
int main(){
  std::mt19937_64 g(1);
  int64_t edges[] = {0,1,-1,2,-2,65536,-65536,MAXF,-MAXF,MAXF-1,-MAXF+1,MAXF/2,MAXF/2+1,MAXF/2+2,-(MAXF/2),-(MAXF/2)-1,-(MAXF/2)-2, (1ll<<62), -(1ll<<62), (1ll<<62)-1, (1ll<<62)+1};
  long bad_add=0,bad_sub=0,n=0; 
  auto chk=[&](int64_t a,int64_t b){
    n++;
    i128 s=(i128)a+b; int64_t r=add_w(a,b);
    bool ok = (s>=-MAXF && s<=MAXF) ? (r==(int64_t)s) : isn(r);
    if(!ok){ if(bad_add<8) printf("ADD a=%lld b=%lld exact=%s r=%lld\n",(long long)a,(long long)b,(s>MAXF?">max":(s<-MAXF?"<low":"in")),(long long)r); bad_add++; }
    s=(i128)a-b; r=sub_w(a,b);
    ok = (s>=-MAXF && s<=MAXF) ? (r==(int64_t)s) : isn(r);
    if(!ok){ if(bad_sub<8) printf("SUB a=%lld b=%lld exact=%s r=%lld\n",(long long)a,(long long)b,(s>MAXF?">max":(s<-MAXF?"<low":"in")),(long long)r); bad_sub++; }
  };
  for(auto a:edges) for(auto b:edges) chk(a,b);
  for(int i=0;i<2000000;i++){ int64_t a=(int64_t)g(), b=(int64_t)g(); if(isn(a)||a==INT64_MIN||isn(b)||b==INT64_MIN) continue; chk(a,b);} 
  printf("n=%ld bad_add=%ld bad_sub=%ld\n",n,bad_add,bad_sub);
}
