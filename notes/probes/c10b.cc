#include <fixedmath/fixed_math.hpp>
#include <cstdio>
#include <cstdint>
#include <cmath>
using namespace fixedmath;
typedef long double ld;
static const ld ULP = 1.0L/65536;
static bool isn(int64_t v){ return v==INT64_MAX || v==-INT64_MAX; }
int main(){
  // bucket by 1/32 of phi
  const int NB=32; ld worst[NB]={0}; long viol[NB]={0}, cnt[NB]={0}; int64_t first[NB]; int64_t last[NB]; for(int i=0;i<NB;i++){first[i]=-1;last[i]=-1;}
  for(int64_t r=0;r<=205887;r++){
    int64_t f = tan(as_fixed(r)).v; if(isn(f)) continue;
    ld x=(ld)r/65536; ld t=tanl(x); ld e=fabsl((ld)f/65536 - t)/ (ULP*(1+t*t));
    int b = (int)(r*NB/205888); cnt[b]++; if(e>worst[b])worst[b]=e; if(e>2.5L){ viol[b]++; if(first[b]<0)first[b]=r; last[b]=r; }
  }
  for(int b=0;b<NB;b++) printf("bucket %2d [%.4f pi..): n=%ld worst=%.3Lf viol=%ld first=%lld last=%lld\n",b,(double)b/NB,cnt[b],worst[b],viol[b],(long long)first[b],(long long)last[b]);
}
