#include <fixedmath/fixed_math.hpp>
#include <cstdio>
#include <cstdint>
#include <cmath>
#include <random>
using namespace fixedmath;
typedef long double ld;
static const ld ULP = 1.0L/65536;
int main(){
  const ld PI = 3.14159265358979323846264338327950288L;
  int64_t lim = (int64_t)floorl(2*PI*65536);  // raw in [-2pi,2pi]
  printf("lim=%lld count=%lld\n",(long long)lim,(long long)(2*lim+1));
  ld worst_s=0, worst_c=0; int64_t ws=0, wc=0; long oob=0; ld worst_abs_s=0, worst_abs_c=0;
  for(int64_t r=-lim;r<=lim;r++){
    ld x = (ld)r/65536;
    ld ts = sinl(x), tc = cosl(x);
    int64_t fs = sin(as_fixed(r)).v, fc = cos(as_fixed(r)).v;
    if(fs>65536||fs<-65536||fc>65536||fc<-65536) { if(oob<5) printf("OOB r=%lld fs=%lld fc=%lld\n",(long long)r,(long long)fs,(long long)fc); oob++; }
    ld es = fabsl((ld)fs/65536 - ts), ec=fabsl((ld)fc/65536 - tc);
    ld rs = fabsl(asinl(ts)), rc=fabsl(asinl(tc));
    ld bs = es - powl(rs,9)/362880, bc = ec - powl(rc,9)/362880;
    if(bs>worst_s){worst_s=bs;ws=r;} if(bc>worst_c){worst_c=bc;wc=r;}
    if(es>worst_abs_s)worst_abs_s=es; if(ec>worst_abs_c)worst_abs_c=ec;
  }
  printf("sin: worst (err - r^9/9!) = %.4Lf ulp at r=%lld ; worst abs err %.4Lf ulp\n", worst_s/ULP,(long long)ws, worst_abs_s/ULP);
  printf("cos: worst (err - r^9/9!) = %.4Lf ulp at r=%lld ; worst abs err %.4Lf ulp\n", worst_c/ULP,(long long)wc, worst_abs_c/ULP);
  printf("oob=%ld\n",oob);
  // periodicity
  std::mt19937_64 g(7); long bad=0,n=0; const int64_t P=2*205887;
  for(int i=0;i<20000000;i++){
    int bits = 1 + g()%46; int64_t x = (int64_t)(g() >> (64-bits)); if(g()&1) x=-x;
    int64_t kmax = ((1ll<<46) )/P; int64_t k = (int64_t)(g()% (2*kmax+1)) - kmax; if(g()%4==0) k = (int64_t)(g()%9)-4;
    __int128 y = (__int128)x + (__int128)k*P; if(y >= ((__int128)1<<46) || y <= -((__int128)1<<46)) continue;
    n++;
    if(sin(as_fixed(x)).v != sin(as_fixed((int64_t)y)).v || cos(as_fixed(x)).v != cos(as_fixed((int64_t)y)).v){ if(bad<10) printf("PERIOD x=%lld k=%lld y=%lld sin %lld vs %lld cos %lld vs %lld\n",(long long)x,(long long)k,(long long)(int64_t)y,(long long)sin(as_fixed(x)).v,(long long)sin(as_fixed((int64_t)y)).v,(long long)cos(as_fixed(x)).v,(long long)cos(as_fixed((int64_t)y)).v); bad++; }
  }
  printf("period n=%ld bad=%ld\n",n,bad);
}
