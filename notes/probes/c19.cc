#include <fixedmath/fixed_math.hpp>
#include <cstdio>
#include <cstdint>
#include <cmath>
#include <random>
#include <cstdlib>
#pragma GCC diagnostic ignored "-Wdeprecated-declarations"
using namespace fixedmath;
namespace fixedmath { fixed_t sin_angle_tab(uint16_t) noexcept; fixed_t cos_angle_tab(uint16_t) noexcept; fixed_t tan_tab(uint8_t) noexcept; uint16_t square_root_tab(uint8_t) noexcept; }
typedef long double ld;
static const ld PI=3.14159265358979323846264338327950288L;
static bool isn(int64_t v){ return v==INT64_MAX || v==-INT64_MAX; }
int main(int argc,char**argv){
  if(argc>1){ int d=atoi(argv[1]); printf("sin_angle_aprox(%d)=%lld cos=%lld\n",d,(long long)sin_angle_aprox(d).v,(long long)cos_angle_aprox(d).v); return 0; }
  ld ws=0,wc=0,wt=0,wq=0; int is=0,ic=0,it=0,iq=0;
  for(int i=0;i<=360;i++){ ld e=fabsl((ld)sin_angle_tab(i).v - sinl(i*PI/180)*65536); if(e>ws){ws=e;is=i;} e=fabsl((ld)cos_angle_tab(i).v - cosl(i*PI/180)*65536); if(e>wc){wc=e;ic=i;} }
  for(int i=0;i<256;i++){ if(i==128){printf("tan_tab[128]=%lld\n",(long long)tan_tab(128).v);continue;} ld t=tanl(i*PI/256); ld e=fabsl((ld)tan_tab(i).v - t*65536)/(1+t*t); if(e>wt){wt=e;it=i;} }
  for(int i=0;i<256;i++){ ld t=sqrtl((ld)i/256 + 31.0L/262144)*65536; ld e=fabsl((ld)square_root_tab(i) - t); if(e>wq){wq=e;iq=i;} }
  printf("table worst: sin %.3Lf ulp @%d, cos %.3Lf ulp @%d, tan %.3Lf (scaled) @%d, sqrt %.3Lf @%d\n",ws,is,wc,ic,wt,it,wq,iq);
  // sin_angle_aprox over non-negative d
  ld w=0; long bad=0; int64_t wd=0;
  for(int64_t d=0; d<=INT32_MAX; d+= (d<100000?1:9973)){ ld e=fabsl((ld)sin_angle_aprox((int32_t)d).v - sinl((d%360)*PI/180)*65536); ld e2=fabsl((ld)cos_angle_aprox((int32_t)d).v - cosl((d%360)*PI/180)*65536); if(e2>e)e=e2; if(e>w){w=e;wd=d;} if(e>2)bad++; }
  printf("sin/cos_angle_aprox d>=0: worst %.3Lf ulp at d=%lld bad=%ld\n",w,(long long)wd,bad);
  // sqrt_aprox
  std::mt19937_64 g(19); ld wr=0; int64_t wx=0; long sb=0,n=0; ld wr_by[40]={0};
  for(int64_t x=1;x<(1<<20);x++){ int64_t s=sqrt_aprox(as_fixed(x)).v; ld t=sqrtl((ld)x*65536); ld rel=fabsl(s-t)/t; int b=63-__builtin_clzll(x); if(rel>wr_by[b])wr_by[b]=rel; if(rel>wr){wr=rel;wx=x;} if(rel>0.02L)sb++; n++; }
  for(int i=0;i<20000000;i++){ int b=21+g()%17; int64_t x=(1ll<<(b-1))+(int64_t)(g()>>(64-(b-1))); if(x>=(1ll<<37))continue; int64_t s=sqrt_aprox(as_fixed(x)).v; ld t=sqrtl((ld)x*65536); ld rel=fabsl(s-t)/t; int bb=63-__builtin_clzll(x); if(rel>wr_by[bb])wr_by[bb]=rel; if(rel>wr){wr=rel;wx=x;} if(rel>0.02L)sb++; n++; }
  printf("sqrt_aprox n=%ld worst rel=%.4Lf at x=%lld bad=%ld ; sqrt_aprox(0)=%lld sqrt_aprox(-1)nan=%d\n",n,wr,(long long)wx,sb,(long long)sqrt_aprox(as_fixed(0)).v,isn(sqrt_aprox(as_fixed(-1)).v));
  for(int b=0;b<38;b++) printf(" bit%d:%.4Lf",b,wr_by[b]); printf("\n");
  // atan_index_aprox
  ld wa=0; int64_t wax=0; long ab=0; n=0;
  for(int i=0;i<20000000;i++){ int b=1+g()%47; int64_t x=(int64_t)(g()>>(64-b)); if(g()&1)x=-x; if(i<(1<<21)) x=i-(1<<20); int64_t f=atan_index_aprox(as_fixed(x)).v; ld t=atanl((ld)x/65536)*128/PI; ld e=fabsl((ld)f/65536 - t); n++; if(e>wa){wa=e;wax=x;} if(e>1.25L){ if(ab<5)printf("ATANIDX x=%lld f=%.4f true=%.4Lf\n",(long long)x,(double)f/65536,t); ab++;} }
  printf("atan_index_aprox n=%ld worst=%.4Lf at x=%lld bad=%ld\n",n,wa,(long long)wax,ab);
}
