#include <fixedmath/fixed_math.hpp>
#include <cstdio>
#include <cstdint>
#include <cmath>
#include <random>
using namespace fixedmath;
typedef long double ld; typedef __int128 i128;
static const int64_t MAXF = 0x7FFFFFFFFFFFFFFEll;
static bool isn(int64_t v){ return v==INT64_MAX || v==-INT64_MAX; }
template<class T> void a2r(const char*name){
  long bad=0; long long firstbad=0; bool have=false;
  for(long long d=-400; d<=400; d++){
    if(d < (long long)std::numeric_limits<T>::min() || d > (long long)std::numeric_limits<T>::max()) continue;
    int64_t f=angle_to_radians<T>((T)d).v;
    bool in = d>=0 && d<=360;
    bool ok;
    if(!in) ok=isn(f); else { ld t=(ld)d*3.14159265358979323846264338327950288L/180*65536; ok=!isn(f) && fabsl((ld)f-t)<=2; }
    if(!ok){ bad++; if(!have){have=true;firstbad=d;} }
  }
  printf("angle_to_radians<%s>: bad=%ld first=%lld\n",name,bad,firstbad);
}
int main(){
  std::mt19937_64 g(17);
  // C15
  long cbad=0,fbad=0,rel=0,n=0; long cint=0;
  const int64_t LIM=((1ll<<47)-1)*65536; // |x| < 2^47-1
  for(int i=0;i<20000000;i++){
    int b=1+g()%63; int64_t r=(int64_t)(g()>>(64-b)); if(g()&1)r=-r; if(i%4==0) r&=~0xffffll; if(i%16==1) r = (r&~0xffffll)+ (g()%3)-1;
    if(r<=-LIM||r>=LIM) continue; n++;
    int64_t fl=floor(as_fixed(r)).v, ce=ceil(as_fixed(r)).v;
    int64_t efl = r & ~0xffffll; int64_t ece = (r&0xffff)? efl+65536 : r;
    if(fl!=efl){fbad++;}
    if(ce!=ece){ if(cbad<3)printf("CEIL r=%lld ce=%lld exp=%lld\n",(long long)r,(long long)ce,(long long)ece); cbad++; if((r&0xffff)==0)cint++; }
    int64_t nf = floor(as_fixed(-r)).v; if(ce != -nf) rel++;
  }
  printf("C15 n=%ld floorbad=%ld ceilbad=%ld (of which integer args=%ld) ceil!=-floor(-x): %ld\n",n,fbad,cbad,cint,rel);
  // C18
  long shr=0,shl=0,shls=0,neg=0,andb=0; n=0;
  for(int i=0;i<20000000;i++){
    int b=1+g()%63; int64_t x=(int64_t)(g()>>(64-b)); if(g()&1)x=-x; if(x==INT64_MIN||isn(x))continue; int r=g()%64; n++;
    int64_t a=(as_fixed(x)>>r).v; if(a!=(x>>r))shr++;  // floor(x/2^r) == arithmetic shift
    i128 p=(i128)x<<r; int64_t l=(as_fixed(x)<<r).v;
    if(p>=-(i128)MAXF && p<=(i128)MAXF){ if(l!=(int64_t)p){ if(shl<3)printf("SHL x=%lld r=%d l=%lld exp=%lld\n",(long long)x,r,(long long)l,(long long)(int64_t)p); shl++;} }
    else { if((x>0&&l<0)||(x<0&&l>0)) shls++; }
    int nr=-(int)(g()%0x7fffffff)-1; if(!isn((as_fixed(x)<<nr).v)||!isn((as_fixed(x)>>nr).v))neg++;
    int64_t y=(int64_t)g(); if((as_fixed(x)&as_fixed(y)).v!=(x&y))andb++;
  }
  printf("C18 n=%ld shr_bad=%ld shl_inrange_bad=%ld shl_sign_bad=%ld negcount_bad=%ld and_bad=%ld\n",n,shr,shl,shls,neg,andb);
  printf("x<<r examples: (-1<<63)=%lld  (1<<63)=%lld (-3<<62)=%lld\n",(long long)(as_fixed(-1)<<63).v,(long long)(as_fixed(1)<<63).v,(long long)(as_fixed(-3)<<62).v);
  a2r<int8_t>("int8"); a2r<uint8_t>("uint8"); a2r<int16_t>("int16"); a2r<uint16_t>("uint16"); a2r<int32_t>("int32"); a2r<uint32_t>("uint32"); a2r<int64_t>("int64"); a2r<uint64_t>("uint64");
  printf("a2r<uint32>(4294967295)=%lld a2r<int64>(1<<40)=%lld a2r<uint64>(~0)=%lld a2r<uint16>(65535)=%lld\n",(long long)angle_to_radians<uint32_t>(4294967295u).v,(long long)angle_to_radians<int64_t>(1ll<<40).v,(long long)angle_to_radians<uint64_t>(~0ull).v,(long long)angle_to_radians<uint16_t>(65535).v);
}
