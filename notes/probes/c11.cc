#include <fixedmath/fixed_math.hpp>
#include <cstdio>
#include <cstdint>
#include <cmath>
#include <random>
using namespace fixedmath;
typedef long double ld;
static bool isn(int64_t v){ return v==INT64_MAX || v==-INT64_MAX; }
int main(){
  std::mt19937_64 g(5);
  // atan by bit-length class
  printf("atan: by bit length of raw (|x|<2^47)\n");
  for(int bits=1;bits<=47;bits++){
    ld worst=0; int64_t wr=0; long n=0, viol=0, odd=0, bound=0;
    int64_t lo = bits==1?0:(1ll<<(bits-1)), hi=(1ll<<bits)-1;
    long N = (hi-lo+1) < 400000 ? (hi-lo+1) : 400000;
    for(long i=0;i<N;i++){
      int64_t r = (hi-lo+1)<400000 ? lo+i : lo + (int64_t)(g()%(uint64_t)(hi-lo+1));
      int64_t f=atan(as_fixed(r)).v, fm=atan(as_fixed(-r)).v;
      ld e=fabsl((ld)f/65536 - atanl((ld)r/65536)); n++;
      if(e>worst){worst=e;wr=r;} if(e>5e-5L)viol++; if(fm!=-f)odd++; if(f>102944||f<-102944)bound++;
    }
    printf(" bits=%2d n=%ld worst=%.3Le (at %lld) viol=%ld odd=%ld bound=%ld\n",bits,n,worst,(long long)wr,viol,odd,bound);
  }
}
