#include <rapidcheck.h>
#include <fixedmath/fixed_math.hpp>
#include <cstdio>
using namespace fixedmath;
typedef __int128 i128;
static const int64_t MAXF = 0x7FFFFFFFFFFFFFFEll;
static bool isn(int64_t v){ return v==INT64_MAX || v==-INT64_MAX; }
static bool fin(i128 v){ return v>=-(i128)MAXF && v<=(i128)MAXF; }
static rc::Gen<int64_t> genRaw(){
  using namespace rc;
  auto pow2 = gen::map(gen::tuple(gen::inRange(0,63), gen::inRange<int64_t>(-3,4), gen::arbitrary<bool>()), [](const std::tuple<int,int64_t,bool>&t){ int64_t v=(int64_t)((uint64_t)1<<std::get<0>(t)) + std::get<1>(t); return std::get<2>(t)? -v : v; });
  auto bitlen = gen::map(gen::tuple(gen::inRange(1,64), gen::arbitrary<uint64_t>(), gen::arbitrary<bool>()), [](const std::tuple<int,uint64_t,bool>&t){ int b=std::get<0>(t); int64_t v=(int64_t)((std::get<1>(t)>>(64-b)) & 0x7FFFFFFFFFFFFFFFull); return std::get<2>(t)?-v:v; });
  return gen::resize(100, gen::suchThat(gen::weightedOneOf<int64_t>({{3,pow2},{4,bitlen},{2,gen::inRange<int64_t>(-70000,70000)}}), [](int64_t v){ return fin(v); }));
}
// relational: (a, b) with a+b near a boundary target
static rc::Gen<std::pair<int64_t,int64_t>> genAddPair(){
  using namespace rc;
  auto indep = gen::pair(genRaw(),genRaw());
  auto targeted = gen::mapcat(gen::tuple(genRaw(), gen::elementOf(std::vector<i128>{ (i128)MAXF, -(i128)MAXF, (i128)MAXF+1, -(i128)MAXF-1, (i128)1<<63, -((i128)1<<63), 0}), gen::inRange<int64_t>(-3,4)),
     [](const std::tuple<int64_t,i128,int64_t>&t){ int64_t a=std::get<0>(t); i128 b=std::get<1>(t)+std::get<2>(t)-a; if(!fin(b)) { b = b>0? (i128)MAXF : -(i128)MAXF; } return gen::just(std::make_pair(a,(int64_t)b)); });
  return gen::resize(100, gen::weightedOneOf<std::pair<int64_t,int64_t>>({{1,indep},{1,targeted}}));
}
static long ncase=0,nfail=0; static int64_t lastA,lastB,lastR;
int main(){
  bool ok = rc::check("add exact or NaN", [](){
    auto p=*genAddPair(); int64_t a=p.first,b=p.second; ncase++;
    i128 s=(i128)a+b; int64_t r=(as_fixed(a)+as_fixed(b)).v;
    bool good = fin(s)? r==(int64_t)s : isn(r);
    if(!good){lastA=a;lastB=b;lastR=r;nfail++;}
    RC_ASSERT(good);
  });
  printf("ok=%d evaluations=%ld failing_evals=%ld  last failing (shrunk): a=%lld b=%lld r=%lld\n",ok,ncase,nfail,(long long)lastA,(long long)lastB,(long long)lastR);
}
