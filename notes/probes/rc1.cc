#include <rapidcheck.h>
#include <fixedmath/fixed_math.hpp>
#include <cstdio>
#include <chrono>
using namespace fixedmath;
typedef __int128 i128;
static const int64_t MAXF = 0x7FFFFFFFFFFFFFFEll;
static bool isn(int64_t v){ return v==INT64_MAX || v==-INT64_MAX; }
// edge-biased raw generator
static rc::Gen<int64_t> genRaw(){
  using namespace rc;
  auto pow2 = gen::map(gen::tuple(gen::inRange(0,63), gen::inRange<int64_t>(-3,4), gen::arbitrary<bool>()), [](const std::tuple<int,int64_t,bool>&t){ int64_t v=(int64_t)((uint64_t)1<<std::get<0>(t)) + std::get<1>(t); return std::get<2>(t)? -v : v; });
  auto lim = gen::map(gen::tuple(gen::inRange<int64_t>(0,70000), gen::arbitrary<bool>()), [](const std::tuple<int64_t,bool>&t){ int64_t v=MAXF-std::get<0>(t); return std::get<1>(t)?-v:v; });
  auto bitlen = gen::map(gen::tuple(gen::inRange(1,64), gen::arbitrary<uint64_t>(), gen::arbitrary<bool>()), [](const std::tuple<int,uint64_t,bool>&t){ int b=std::get<0>(t); int64_t v=(int64_t)((std::get<1>(t)>>(64-b)) & 0x7FFFFFFFFFFFFFFFull); return std::get<2>(t)?-v:v; });
  auto small = gen::inRange<int64_t>(-70000,70000);
  return gen::resize(100, gen::suchThat(gen::weightedOneOf<int64_t>({{3,pow2},{2,lim},{4,bitlen},{2,small},{1,gen::arbitrary<int64_t>()}}), [](int64_t v){ return v!=INT64_MIN && !isn(v); }));
}
static long ncase=0, nover=0; static int64_t lastA,lastB;
int main(){
  auto t0=std::chrono::steady_clock::now();
  bool ok = rc::check("add exact or NaN", [](){
    int64_t a=*genRaw(), b=*genRaw(); ncase++;
    i128 s=(i128)a+b; int64_t r=(as_fixed(a)+as_fixed(b)).v;
    bool in=(s>=-MAXF&&s<=MAXF); if(!in)nover++;
    bool good = in? r==(int64_t)s : isn(r);
    if(!good){lastA=a;lastB=b;}
    RC_ASSERT(good);
  });
  double dt=std::chrono::duration<double>(std::chrono::steady_clock::now()-t0).count();
  printf("ok=%d cases=%ld overflow_cases=%ld time=%.2fs rate=%.0f/s last failing a=%lld b=%lld\n",ok,ncase,nover,dt,ncase/dt,(long long)lastA,(long long)lastB);
}
