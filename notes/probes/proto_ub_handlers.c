#include <stdint.h>
#include <string.h>
struct SrcLoc { const char* file; uint32_t line; uint32_t col; };
struct UbEvent { const char* kind; const char* file; uint32_t line, col; };
static __thread struct UbEvent ev[16]; static __thread int nev;
__attribute__((visibility("default"))) int cut_ub_count(void){ return nev; }
__attribute__((visibility("default"))) const struct UbEvent* cut_ub_events(void){ return ev; }
__attribute__((visibility("default"))) void cut_ub_reset(void){ nev=0; }
static void rec(const char*k, void*d){ if(nev<16){ struct SrcLoc*l=d; ev[nev].kind=k; ev[nev].file=l->file; ev[nev].line=l->line; ev[nev].col=l->col; } nev++; }
#define H2(n) void __ubsan_handle_##n(void*d, uintptr_t a, uintptr_t b){ (void)a;(void)b; rec(#n,d);} 
#define H1(n) void __ubsan_handle_##n(void*d, uintptr_t a){ (void)a; rec(#n,d);} 
#define H0(n) void __ubsan_handle_##n(void*d){ rec(#n,d);} 
H2(add_overflow) H2(sub_overflow) H2(mul_overflow) H2(divrem_overflow) H2(shift_out_of_bounds)
H1(negate_overflow) H1(out_of_bounds) H1(load_invalid_value) H1(float_cast_overflow)
H0(builtin_unreachable) H0(missing_return) H0(invalid_builtin)
