#include <fixedmath/fixed_math.hpp>
#include <cstring>
#pragma GCC diagnostic ignored "-Wdeprecated-declarations"
using namespace fixedmath;
#define X extern "C" __attribute__((visibility("default"), noinline))
X int64_t fm_add(int64_t a,int64_t b){ return (as_fixed(a)+as_fixed(b)).v; }
X int64_t fm_add_pospos(int64_t a,int64_t b){ if(a>0&&b>0) return (as_fixed(a)+as_fixed(b)).v; return 0; }
X int64_t fm_dbl(int64_t a){ fixed_t x=as_fixed(a); return (x+x).v; }
X int64_t fm_mul(int64_t a,int64_t b){ return (as_fixed(a)*as_fixed(b)).v; }
X int64_t fm_div(int64_t a,int64_t b){ return (as_fixed(a)/as_fixed(b)).v; }
X int64_t fm_sin(int64_t a){ return sin(as_fixed(a)).v; }
X int64_t fm_atan(int64_t a){ return atan(as_fixed(a)).v; }
X int64_t fm_sqrt(int64_t a){ return sqrt(as_fixed(a)).v; }
X int64_t fm_ceil(int64_t a){ return ceil(as_fixed(a)).v; }
X int64_t fm_sin_angle_aprox(int32_t d){ return sin_angle_aprox(d).v; }
X int64_t fm_const_phi(){ return phi.v; }
// lots of instantiations to measure build cost
#define MIX(T,N) \
 X int64_t fm_add_##N##_r(int64_t a,T t){ return (as_fixed(a)+t).v; } X int64_t fm_add_##N##_l(T t,int64_t a){ return (t+as_fixed(a)).v; } \
 X int64_t fm_sub_##N##_r(int64_t a,T t){ return (as_fixed(a)-t).v; } X int64_t fm_sub_##N##_l(T t,int64_t a){ return (t-as_fixed(a)).v; } \
 X int64_t fm_mul_##N##_r(int64_t a,T t){ return (as_fixed(a)*t).v; } X int64_t fm_mul_##N##_l(T t,int64_t a){ return (t*as_fixed(a)).v; } \
 X int64_t fm_div_##N##_r(int64_t a,T t){ return (as_fixed(a)/t).v; } X int64_t fm_div_##N##_l(T t,int64_t a){ return (t/as_fixed(a)).v; } \
 X int64_t fm_from_##N(T t){ return fixed_t{t}.v; } X T fm_to_##N(int64_t a){ return static_cast<T>(as_fixed(a)); } \
 X int64_t fm_a2r_##N(T t){ return angle_to_radians(t).v; } X int64_t fm_sin_angle_##N(T t){ return sin_angle(t).v; }
MIX(int8_t,i8) MIX(uint8_t,u8) MIX(int16_t,i16) MIX(uint16_t,u16) MIX(int32_t,i32) MIX(uint32_t,u32) MIX(int64_t,i64) MIX(uint64_t,u64)
