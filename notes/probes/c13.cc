#include <fixedmath/fixed_math.hpp>
#include <cstdio>
#include <cstdint>
#include <cmath>
#include <random>
using namespace fixedmath;
typedef long double ld;
typedef unsigned __int128 u128;
static bool isn(int64_t v){ return v==INT64_MAX || v==-INT64_MAX; }
// exact check: |s/65536 - sqrt(r/65536)| < 2^-16  <=>  |s - sqrt(r*65536)| < 1  <=> (s-1)^2 < r*65536 < (s+1)^2 (for s>=1)
static bool within1(int64_t s,int64_t r){ if(s<0) return false; u128 t=(u128)r<<16; u128 lo = s>0? (u128)(s-1)*(u128)(s-1):0; u128 hi=(u128)(s+1)*(u128)(s+1); if(s==0) return t<hi; return lo<t && t<hi; }
int main(){
  std::mt19937_64 g(11);
  for(int algo=0;algo<2;algo++){
    auto S=[&](int64_t r){ return algo? detail::sqrt_abacus(as_fixed(r)).v : detail::sqrt_std_math(as_fixed(r)).v; };
    long n=0,bad=0,mono=0,sq=0; int64_t firstbad=-1;
    for(int64_t r=0;r<(1<<22);r++){ int64_t s=S(r); n++; if(!within1(s,r)){bad++; if(firstbad<0)firstbad=r;} }
    for(int b=23;b<=47;b++) for(int i=0;i<300000;i++){ int64_t r=(1ll<<(b-1)) + (int64_t)(g()>>(64-(b-1))); int64_t s=S(r); n++; if(!within1(s,r)){ if(bad<5) printf(" BAD algo=%d r=%lld s=%lld true=%.4Lf\n",algo,(long long)r,(long long)s,sqrtl((ld)r*65536)); bad++; if(firstbad<0)firstbad=r;} int64_t s2=S(r+1); if(s2<s)mono++; }
    // perfect squares n*n with n raw any (n*n representable => n^2/65536 integer raw?) value n=k/65536: n*n raw = k*k/65536 must be integer => k multiple of 256
    for(int i=0;i<2000000;i++){ int64_t k=((int64_t)(g()%( (1ull<<39) )))&~255ll; int64_t r=(int64_t)(((u128)k*k)>>16); if(r>=(1ll<<47)) continue; if(S(r)!=k) { if(sq<5)printf(" SQ algo=%d k=%lld r=%lld s=%lld\n",algo,(long long)k,(long long)r,(long long)S(r)); sq++; } }
    long neg=0; for(int i=0;i<1000000;i++){ int b=1+g()%63; int64_t r=-(int64_t)(g()>>(64-b)); if(r==0||r==INT64_MIN)continue; if(!isn(S(r)))neg++; }
    printf("algo=%s n=%ld bad=%ld firstbad=%lld mono=%ld sqbad=%ld negbad=%ld sqrt0=%lld\n",algo?"abacus":"std",n,bad,(long long)firstbad,mono,sq,neg,(long long)S(0));
  }
  // differential
  long d2=0,n=0; for(int i=0;i<20000000;i++){ int b=1+g()%47; int64_t r=(int64_t)(g()>>(64-b)); int64_t a=detail::sqrt_abacus(as_fixed(r)).v, s=detail::sqrt_std_math(as_fixed(r)).v; n++; if(a-s>1||s-a>1)d2++; }
  printf("diff>1: %ld of %ld\n",d2,n);
  // range [2^47,2^48) and above
  for(int64_t r : std::initializer_list<int64_t>{ (int64_t)(1ll<<47), (int64_t)((1ll<<47)+12345), (int64_t)((1ll<<48)-1), (int64_t)(1ll<<48), (int64_t)(1ll<<62), (int64_t)0x7FFFFFFFFFFFFFFEll }) printf("r=%lld abacus=%lld std=%lld true=%.1Lf\n",(long long)r,(long long)detail::sqrt_abacus(as_fixed(r)).v,(long long)detail::sqrt_std_math(as_fixed(r)).v, sqrtl((ld)r*65536));
}
