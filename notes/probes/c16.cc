#include <fixedmath/fixed_math.hpp>
#include <cstdio>
#include <cstdint>
#include <cmath>
#include <random>
using namespace fixedmath;
typedef long double ld; typedef __int128 i128;
static const int64_t MAXF = 0x7FFFFFFFFFFFFFFEll;
static bool isn(int64_t v){ return v==INT64_MAX || v==-INT64_MAX; }
static std::mt19937_64 g(31);
static int64_t rawgen(){ int b=1+g()%63; int64_t r=(int64_t)(g()>>(64-b)); if(g()&1)r=-r; if(isn(r)||r==INT64_MIN) r=0; return r; }
template<class T> T tgen(){ using U=std::make_unsigned_t<T>; int bits=1+g()%(sizeof(T)*8); U u=(U)(g()>>(64-bits)); if(g()%8==0) u=(U)(g()%5); if(g()%16==0) u=(U)~(U)(g()%3); return (T)u; }
template<class T> void c04(const char*name){
  long n=0,bad1=0,bad2=0,bad3=0;
  for(int i=0;i<3000000;i++){ T t=tgen<T>(); n++; int64_t r=integral_to_fixed<T>(t).v; int64_t r2=fixed_t{t}.v;
    i128 v=(i128)t; bool in = v<=2147483647 && v>=-2147483647; 
    if(in? (r!=(int64_t)(v*65536)) : !isn(r)) bad1++; if(r2!=r)bad1++;
    if(in){ T back=fixed_to_integral<T>(as_fixed(r)); if(back!=t)bad2++; }
    int64_t x=rawgen(); i128 k=(i128)(x>>16); T out=fixed_to_integral<T>(as_fixed(x)); bool rep = k>=(i128)std::numeric_limits<T>::min() && k<=(i128)std::numeric_limits<T>::max(); if(out != (rep?(T)k:(T)0)) bad3++; if(static_cast<T>(as_fixed(x))!=out) bad3++;
  }
  printf("C04<%s> n=%ld int->fixed bad=%ld roundtrip bad=%ld fixed->int bad=%ld\n",name,n,bad1,bad2,bad3);
}
template<class T> void c16int(const char*name){
  long n=0,add=0,sub=0,mul=0,div=0,asg=0,mulx=0,divx=0;
  for(int i=0;i<3000000;i++){ T t=tgen<T>(); int64_t a=rawgen(); fixed_t A=as_fixed(a); fixed_t F{t}; i128 tv=(i128)t; n++;
    bool conv=!isn(F.v);
    if(conv){ if((A+t).v!=(A+F).v||(t+A).v!=(F+A).v)add++; if((A-t).v!=(A-F).v||(t-A).v!=(F-A).v)sub++; if((t/A).v!=(F/A).v)div++; 
      fixed_t B=A; B+=t; if(B.v!=(A+t).v)asg++; B=A; B-=t; if(B.v!=(A-t).v)asg++; }
    // exact scalar mult/div
    i128 p=(i128)a*tv; int64_t m1=(A*t).v, m2=(t*A).v; bool ok = (p>=-(i128)MAXF&&p<=(i128)MAXF)? (m1==(int64_t)p) : isn(m1); if(!ok)mulx++; if(m1!=m2)mul++;
    fixed_t B=A; B*=t; if(B.v!=m1)asg++;
    if(tv!=0){ int64_t q=(A/t).v; if(q!=(int64_t)((i128)a/tv)) { if(divx<2)printf("  DIVX<%s> a=%lld t=%lld q=%lld exp=%lld\n",name,(long long)a,(long long)tv,(long long)q,(long long)(int64_t)((i128)a/tv)); divx++; } B=A; B/=t; if(B.v!=q)asg++; } else if(!isn((A/t).v))divx++;
  }
  printf("C16<%s> n=%ld add=%ld sub=%ld t/a=%ld mul_sym=%ld mul_exact_bad=%ld div_exact_bad=%ld opassign=%ld\n",name,n,add,sub,div,mul,mulx,divx,asg);
}
int main(){
  c04<int8_t>("i8");c04<uint8_t>("u8");c04<int16_t>("i16");c04<uint16_t>("u16");c04<int32_t>("i32");c04<uint32_t>("u32");c04<int64_t>("i64");c04<uint64_t>("u64");c04<long long>("ll");c04<unsigned long long>("ull");
  c16int<int8_t>("i8");c16int<uint8_t>("u8");c16int<int16_t>("i16");c16int<uint16_t>("u16");c16int<int32_t>("i32");c16int<uint32_t>("u32");c16int<int64_t>("i64");c16int<uint64_t>("u64");
  // float & double
  long n=0,fb=0,db=0,asg=0;
  for(int i=0;i<5000000;i++){ int64_t a=rawgen(); fixed_t A=as_fixed(a); float t=(float)ldexp((double)(int64_t)(g()>>40)-(1<<23), (int)(g()%40)-30); fixed_t F{t}; n++;
    if(!isn(F.v)){ if((A+t).v!=(A+F).v||(t+A).v!=(F+A).v||(A-t).v!=(A-F).v||(t-A).v!=(F-A).v||(A*t).v!=(A*F).v||(t*A).v!=(F*A).v) fb++; if(F.v!=0 && (A/t).v!=(A/F).v) fb++; if(a!=0&&(t/A).v!=(F/A).v)fb++; fixed_t B=A; B+=t; if(B.v!=(A+t).v)asg++; B=A;B*=t; if(B.v!=(A*t).v)asg++; B=A;B-=t; if(B.v!=(A-t).v)asg++; if(F.v!=0){B=A;B/=t; if(B.v!=(A/t).v)asg++;} }
    double d=ldexp((double)(int64_t)(g()>>11)-(1ll<<52),(int)(g()%80)-70); double da=(double)a/65536.0;
    if((A+d)!=da+d||(d+A)!=d+da||(A-d)!=da-d||(d-A)!=d-da||(A*d)!=da*d||(d*A)!=d*da) db++; if(d!=0&&(A/d)!=da/d)db++; if(a!=0&&(d/A)!=d/da)db++;
  }
  printf("C16 float n=%ld bad=%ld opassign=%ld ; double bad=%ld\n",n,fb,asg,db);
}
