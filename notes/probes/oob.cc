#include <fixedmath/fixed_math.hpp>
#include <cstdio>
#include <csetjmp>
#include <csignal>
#pragma GCC diagnostic ignored "-Wdeprecated-declarations"
using namespace fixedmath;
static sigjmp_buf jb; static volatile int in_case=0; static const char* why=""; static char whybuf[256];
namespace std { void __glibcxx_assert_fail(const char* file,int line,const char* fn,const char* cond) noexcept { snprintf(whybuf,sizeof whybuf,"assert %s at %s:%d",cond,file,line); why=whybuf; siglongjmp(jb,2); } }
static void onsig(int s){ if(in_case){ snprintf(whybuf,sizeof whybuf,"signal %d",s); why=whybuf; siglongjmp(jb,1);} _exit(99); }
template<class F> void run(const char*name,F f){ in_case=1; int r=sigsetjmp(jb,1); if(r==0){ volatile int64_t v=f(); printf("%-24s ok v=%lld\n",name,(long long)v);} else printf("%-24s TRAP(%d): %s\n",name,r,why); in_case=0; }
int main(){ setvbuf(stdout,0,_IONBF,0);
  struct sigaction sa{}; sa.sa_handler=onsig; sa.sa_flags=SA_NODEFER; for(int s:{SIGFPE,SIGSEGV,SIGILL,SIGABRT,SIGBUS}) sigaction(s,&sa,0);
  volatile int32_t m1=-1, d360=360, big=INT32_MIN; volatile int64_t mn=-(1ll<<47), neg1=-1;
  run("sin_angle_aprox(360)",[&]{return sin_angle_aprox(d360).v;});
  run("sin_angle_aprox(-1)",[&]{return sin_angle_aprox(m1).v;});
  run("cos_angle_aprox(MIN)",[&]{return cos_angle_aprox(big).v;});
  run("div -2^31 / -eps",[&]{return (as_fixed(mn)/as_fixed(neg1)).v;});
  run("sin_angle_aprox(45)",[&]{return sin_angle_aprox(45).v;});
}
