#include <dlfcn.h>
#include <cstdio>
#include <cstdint>
#include <csetjmp>
#include <csignal>
#include <initializer_list>
struct UbEvent { const char* kind; const char* file; uint32_t line, col; };
static sigjmp_buf jb; static volatile int trapped; static char why[256];
namespace std { void __glibcxx_assert_fail(const char* f,int l,const char*,const char* c) noexcept { snprintf(why,sizeof why,"assert(%s) %s:%d",c,f,l); siglongjmp(jb,2);} }
static void onsig(int s){ snprintf(why,sizeof why,"signal %d",s); siglongjmp(jb,1); }
int main(int argc,char**argv){ setvbuf(stdout,0,_IONBF,0);
  struct sigaction sa{}; sa.sa_handler=onsig; sa.sa_flags=SA_NODEFER; for(int s:{SIGFPE,SIGSEGV,SIGILL,SIGABRT,SIGBUS}) sigaction(s,&sa,0);
  for(int i=1;i<argc;i++){ void*h=dlopen(argv[i],RTLD_NOW|RTLD_LOCAL); if(!h){printf("dlopen %s: %s\n",argv[i],dlerror());continue;}
    auto add=(int64_t(*)(int64_t,int64_t))dlsym(h,"fm_add"); auto pp=(int64_t(*)(int64_t,int64_t))dlsym(h,"fm_add_pospos"); auto dbl=(int64_t(*)(int64_t))dlsym(h,"fm_dbl"); auto dv=(int64_t(*)(int64_t,int64_t))dlsym(h,"fm_div"); auto saa=(int64_t(*)(int32_t))dlsym(h,"fm_sin_angle_aprox"); auto at=(int64_t(*)(int64_t))dlsym(h,"fm_atan");
    auto ubc=(int(*)())dlsym(h,"cut_ub_count"); auto ube=(const UbEvent*(*)())dlsym(h,"cut_ub_events"); auto ubr=(void(*)())dlsym(h,"cut_ub_reset");
    int64_t big=(1ll<<62)+5;
    auto show=[&](const char*n,auto f){ if(ubr)ubr(); int r=sigsetjmp(jb,0); if(r==0){ int64_t v=f(); printf("  %-22s v=%lld",n,(long long)v);} else printf("  %-22s TRAP %s",n,why); if(ubc&&ubc()){ auto e=ube(); const char*b=e[0].file; for(const char*p=b;*p;p++) if(*p=='/') b=p+1; printf("  UB x%d %s %s:%u",ubc(),e[0].kind,b,e[0].line);} printf("\n"); };
    printf("%s\n",argv[i]);
    show("add(big,big)",[&]{return add(big,big);}); show("add_pospos(big,big)",[&]{return pp(big,big);}); show("dbl(big)",[&]{return dbl(big);});
    show("div(-2^47,-1)",[&]{return dv(-(1ll<<47),-1);}); show("sin_angle_aprox(-1)",[&]{return saa(-1);}); show("atan(2^46)",[&]{return at(1ll<<46);});
  }
}
