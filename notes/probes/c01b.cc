#include <fixedmath/fixed_math.hpp>
#include <cstdio>
#include <cstdint>
using namespace fixedmath;
static const int64_t MAXF = 0x7FFFFFFFFFFFFFFEll;
static bool isn(int64_t v){ return v==INT64_MAX || v==-INT64_MAX; }
// call sites where the caller has established operand signs before the inlined operator
extern "C" __attribute__((noinline)) int64_t add_pospos(int64_t a, int64_t b){ if(a>0 && b>0) return (as_fixed(a)+as_fixed(b)).v; return 0; }
extern "C" __attribute__((noinline)) int64_t add_negneg(int64_t a, int64_t b){ if(a<0 && b<0) return (as_fixed(a)+as_fixed(b)).v; return 0; }
extern "C" __attribute__((noinline)) int64_t sub_posneg(int64_t a, int64_t b){ if(a>0 && b<0) return (as_fixed(a)-as_fixed(b)).v; return 0; }
extern "C" __attribute__((noinline)) int64_t addeq_loop(int64_t a, int64_t step, int n){ fixed_t x=as_fixed(a); fixed_t s=as_fixed(step); if(!(s>0_fix) || !(x>0_fix)) return 0; for(int i=0;i<n;i++) x+=s; return x.v; }
extern "C" __attribute__((noinline)) int64_t dbl(int64_t a){ fixed_t x=as_fixed(a); return (x+x).v; }
extern "C" __attribute__((noinline)) int64_t add_const(int64_t a){ fixed_t x=as_fixed(a); return (x+as_fixed(1ll<<62)).v; }
extern "C" __attribute__((noinline)) int64_t sub_const(int64_t a){ fixed_t x=as_fixed(a); return (x-as_fixed(1ll<<62)).v; }
int main(){
  int64_t big=(1ll<<62)+5;
  printf("add_pospos(big,big) nan=%d r=%lld\n", isn(add_pospos(big,big)), (long long)add_pospos(big,big));
  printf("add_negneg(-big,-big) nan=%d r=%lld\n", isn(add_negneg(-big,-big)), (long long)add_negneg(-big,-big));
  printf("sub_posneg(big,-big) nan=%d r=%lld\n", isn(sub_posneg(big,-big)), (long long)sub_posneg(big,-big));
  printf("addeq_loop nan=%d r=%lld\n", isn(addeq_loop(big,big,1)), (long long)addeq_loop(big,big,1));
  printf("dbl(big) nan=%d r=%lld\n", isn(dbl(big)), (long long)dbl(big));
  printf("dbl(-big) nan=%d r=%lld\n", isn(dbl(-big)), (long long)dbl(-big));
  printf("add_const(big) nan=%d r=%lld\n", isn(add_const(big)), (long long)add_const(big));
  printf("sub_const(-big) nan=%d r=%lld\n", isn(sub_const(-big)), (long long)sub_const(-big));
}
