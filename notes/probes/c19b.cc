#include <fixedmath/fixed_math.hpp>
#include <cstdio>
#include <cmath>
#pragma GCC diagnostic ignored "-Wdeprecated-declarations"
using namespace fixedmath; typedef long double ld;
int main(){ const ld PI=3.14159265358979323846264338327950288L; ld rs[360],rc[360]; for(int i=0;i<360;i++){rs[i]=sinl(i*PI/180)*65536; rc[i]=cosl(i*PI/180)*65536;}
  ld w=0; long bad=0,n=0; int64_t wd=0;
  for(int64_t d=INT32_MIN; d<=INT32_MAX; d+=(d>-200000&&d<200000)?1:4099){ int m=(int)(((d%360)+360)%360); ld e=fabsl(sin_angle_aprox((int32_t)d).v-rs[m]); ld e2=fabsl(cos_angle_aprox((int32_t)d).v-rc[m]); if(e2>e)e=e2; n++; if(e>w){w=e;wd=d;} if(e>2)bad++; }
  printf("sin/cos_angle_aprox all-sign sweep n=%ld worst=%.3Lf ulp at d=%lld bad=%ld\n",n,w,(long long)wd,bad); }
