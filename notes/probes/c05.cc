#include <fixedmath/fixed_math.hpp>
#include <cstdio>
#include <cstdint>
#include <cmath>
#include <cstring>
#include <random>
using namespace fixedmath;
typedef long double ld; typedef __int128 i128;
static bool isn(int64_t v){ return v==INT64_MAX || v==-INT64_MAX; }
// half-ulp of type T at magnitude m (spacing of T near m)/2
template<class T> ld half_ulp_at(ld m){ if(m==0) return 0; int e; frexpl(m,&e); /* m in [2^(e-1),2^e) */ int p = std::numeric_limits<T>::digits; return ldexpl(1.0L, e-p)/2; }
template<class T> void run_fp(const char*name){
  std::mt19937_64 g(23); long n=0,bad_range=0,bad_acc=0,band=0; ld worst=0; T wv=0; long worst_case_over_half=0;
  auto one=[&](T v){
    n++; int64_t r=floating_point_to_fixed<T>(v).v;
    bool fin = std::isfinite(v); ld av=fabsl((ld)v);
    bool inr = fin && av < 2147483647.0L;
    if(!inr){ if(!isn(r)){ if(bad_range<5)printf("  RANGE v=%.10Lg r=%lld\n",(ld)v,(long long)r); bad_range++; } return; }
    if(isn(r)){ if(bad_range<5)printf("  RANGE(nan inside) v=%.10Lg\n",(ld)v); bad_range++; return; }
    ld t=(ld)v*65536; ld err=fabsl((ld)r - t); ld tol=0.5L + half_ulp_at<T>(fabsl(t)+0.5L);
    if(err>0.5L) worst_case_over_half++;
    if(err>tol){ if(bad_acc<5)printf("  ACC v=%.10Lg r=%lld t=%.4Lf err=%.4Lf tol=%.4Lf\n",(ld)v,(long long)r,t,err,tol); bad_acc++; }
    if(err-tol>worst){worst=err-tol;wv=v;}
  };
  if(sizeof(T)==4){ for(uint64_t b=0;b<(1ull<<32);b+=1){ uint32_t u=(uint32_t)b; float f; memcpy(&f,&u,4); one((T)f);} }
  else { for(long i=0;i<200000000;i++){ uint64_t u=g(); if(i%3==0){ // bias exponent into interesting range
        int e = 1023 - 20 + (int)(g()%54); u = (u & 0x800FFFFFFFFFFFFFull) | ((uint64_t)e<<52); }
      double d; memcpy(&d,&u,8); one((T)d);} 
    for(double d : {2147483647.0, 2147483646.99999, 2147483647.5, -2147483647.0, -2147483646.5, 2147483646.9999999, 0.5/65536, 0.49999/65536, 1.5/65536, -0.5/65536, 2.5/65536}) { one((T)d); printf("  pt v=%.12g -> %lld\n",d,(long long)floating_point_to_fixed<T>((T)d).v);} }
  printf("%s->fixed n=%ld bad_range=%ld bad_acc=%ld (cases with err>0.5: %ld)\n",name,n,bad_range,bad_acc,worst_case_over_half);
}
static float rne_float(int64_t raw){ // independent: long double is exact for int64; cast rounds RNE
  return (float)((ld)raw/65536); }
int main(){
  run_fp<float>("float"); run_fp<double>("double");
  std::mt19937_64 g(29); long n=0,bd=0,bf=0,brt=0,band_nan=0,band_id=0;
  for(long i=0;i<100000000;i++){ int b=1+g()%63; int64_t r=(int64_t)(g()>>(64-b)); if(g()&1)r=-r; if(isn(r)||r==INT64_MIN)continue; n++;
    double d=fixed_to_floating_point<double>(as_fixed(r)); float f=fixed_to_floating_point<float>(as_fixed(r));
    int64_t ar=r<0?-r:r;
    if(ar<=(1ll<<53)){ if((ld)d*65536 != (ld)r) bd++; }
    if(f!=rne_float(r)) bf++;
    if(ar < (1ll<<47)){ int64_t back=floating_point_to_fixed<double>(d).v; if(ar < 2147483647ll*65536){ if(back!=r)brt++; } else { if(isn(back))band_nan++; else if(back==r)band_id++; else brt++; } }
  }
  printf("fixed->fp n=%ld double_inexact=%ld float_notRNE=%ld roundtrip_bad=%ld band: nan=%ld id=%ld\n",n,bd,bf,brt,band_nan,band_id);
}
