#include <fixedmath/fixed_math.hpp>
#include <cstdio>
#include <cstdint>
#include <cmath>
#include <random>
using namespace fixedmath;
typedef long double ld;
static const ld U=1.0L/65536;
static bool isn(int64_t v){ return v==INT64_MAX || v==-INT64_MAX; }
int main(){
#ifdef FIXEDMATH_ENABLE_SQRT_ABACUS_ALGO
  printf("abacus\n");
#else
  printf("std\n");
#endif
  std::mt19937_64 g(13);
  long n=0,violsmall=0,violrel=0,sym=0,nanneg=0; ld worstsmall=0, worstrel=0; int64_t wa=0,wb=0,ra=0,rb=0;
  ld wrel_by[48]={0}; long vrel_by[48]={0};
  for(int i=0;i<40000000;i++){
    int ba=1+g()%47, bb=1+g()%47; if(i%3==0) bb = ba>3? ba-(g()%3) : ba;
    int64_t a=(int64_t)(g()>>(64-ba)), b=(int64_t)(g()>>(64-bb)); if(g()&1)a=-a; if(g()&1)b=-b;
    if(i%50==0){ a = (1ll<<30) + (int64_t)(g()%5)-2; } if(i%50==1){ b=(1ll<<16)+(int64_t)(g()%5)-2; } if(i%50==2){ a=(1ll<<30)-1; b=(1ll<<30)-1;}
    int64_t h=hypot(as_fixed(a),as_fixed(b)).v; n++;
    if(isn(h)||h<0){ if(nanneg<5)printf("NANNEG a=%lld b=%lld h=%lld\n",(long long)a,(long long)b,(long long)h); nanneg++; continue;}
    int64_t aa=a<0?-a:a, ab=b<0?-b:b;
    if(hypot(as_fixed(b),as_fixed(a)).v!=h || hypot(as_fixed(aa),as_fixed(ab)).v!=h) sym++;
    ld t=sqrtl((ld)a*a+(ld)b*b)/65536; ld e=fabsl((ld)h/65536 - t);
    bool small = aa < (16384ll<<16) && ab < (16384ll<<16);
    if(small){ if(e>worstsmall){worstsmall=e;wa=a;wb=b;} if(e>2*U){ if(violsmall<5)printf("SMALL a=%lld b=%lld h=%lld true=%.3Lf\n",(long long)a,(long long)b,(long long)h,t*65536); violsmall++;} }
    else { ld rel=e/t; int mb = 63-__builtin_clzll((uint64_t)(aa>ab?aa:ab)); if(rel>wrel_by[mb])wrel_by[mb]=rel; if(rel>worstrel){worstrel=rel;ra=a;rb=b;} if(rel>1.5e-4L){ vrel_by[mb]++; if(violrel<5)printf("REL a=%lld b=%lld h=%lld true=%.3Lf rel=%.3Le\n",(long long)a,(long long)b,(long long)h,t*65536,rel); violrel++;} }
  }
  printf("n=%ld small: worst=%.3Lf ulp (a=%lld b=%lld) viol=%ld ; large: worst rel=%.3Le (a=%lld b=%lld) viol=%ld ; sym=%ld nanneg=%ld\n",n,worstsmall/U,(long long)wa,(long long)wb,violsmall,worstrel,(long long)ra,(long long)rb,violrel,sym,nanneg);
  for(int b=30;b<47;b++) printf("  maxbit=%d worstrel=%.3Le viol=%ld\n",b,wrel_by[b],vrel_by[b]);
}
