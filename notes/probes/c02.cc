#include <fixedmath/fixed_math.hpp>
#include <cstdio>
#include <cstdint>
#include <csetjmp>
#include <csignal>
#include <random>
using namespace fixedmath;
typedef __int128 i128;
static const int64_t MAXF = 0x7FFFFFFFFFFFFFFEll;
static bool isn(int64_t v){ return v==INT64_MAX || v==-INT64_MAX; }
static bool fin(i128 v){ return v>=-(i128)MAXF && v<=(i128)MAXF; }
static std::mt19937_64 g(41);
static int64_t rawgen(){ int k=g()%10; int64_t r; if(k<5){int b=1+g()%63; r=(int64_t)(g()>>(64-b));} else if(k<8){ r=((int64_t)1<<(g()%63)) + (int64_t)(g()%7)-3; } else if(k<9){ r=MAXF-(int64_t)(g()%70000);} else r=(int64_t)(g()%140001)-70000; if(g()&1)r=-r; if(!fin(r)) r=0; return r; }
extern "C" __attribute__((noinline)) int64_t mul_w(int64_t a,int64_t b){ return (as_fixed(a)*as_fixed(b)).v; }
extern "C" __attribute__((noinline)) int64_t div_w(int64_t a,int64_t b){ return (as_fixed(a)/as_fixed(b)).v; }
static sigjmp_buf jb; static void onsig(int){ siglongjmp(jb,1); }
static i128 iabs(i128 v){ return v<0?-v:v; }
int main(){
  struct sigaction sa{}; sa.sa_handler=onsig; sa.sa_flags=SA_NODEFER; sigaction(SIGFPE,&sa,0);
  long n=0, m_acc=0,m_mustnot=0,m_must=0, d_zero=0,d_acc=0,d_mustnot=0,d_trap=0; long cls_over=0, cls_fit=0;
  for(int i=0;i<30000000;i++){
    int64_t a=rawgen(), b=rawgen();
    if(i%4==0 && a!=0){ // result-targeted for mul
      i128 T = (i%8==0)? ((i128)1<<63) : (i128)MAXF*65536; if(g()&1)T=-T; i128 bb=T/a + (int64_t)(g()%5)-2; if(fin(bb)) b=(int64_t)bb; }
    n++;
    i128 P=(i128)a*b; int64_t r=mul_w(a,b); bool fits = P>=INT64_MIN && P<=INT64_MAX; if(fits)cls_fit++; else cls_over++;
    if(!isn(r)){ if(iabs((i128)r*65536 - P) > 65536){ if(m_acc<3)printf("MUL acc a=%lld b=%lld r=%lld\n",(long long)a,(long long)b,(long long)r); m_acc++; } if(iabs(P) > (i128)MAXF*65536){ m_must++; } }
    else if(fits){ if(m_mustnot<3)printf("MUL nan-but-fits a=%lld b=%lld\n",(long long)a,(long long)b); m_mustnot++; }
    // div
    int64_t c=rawgen(), d=rawgen(); if(i%16==1) d=0; if(i%16==2) d=(g()&1)?1:-1; if(i%16==3) c=-((int64_t)(1+g()%60000)<<47);
    if(!fin(c)) c=0;
    int64_t q; if(sigsetjmp(jb,0)==0) q=div_w(c,d); else { if(d_trap<3)printf("DIV TRAP c=%lld d=%lld\n",(long long)c,(long long)d); d_trap++; continue; }
    if(d==0){ if(!isn(q)) d_zero++; continue; }
    if(!isn(q)){ if(iabs((i128)q*d - (i128)c*65536) > iabs(d)){ if(d_acc<3)printf("DIV acc c=%lld d=%lld q=%lld\n",(long long)c,(long long)d,(long long)q); d_acc++; } }
    else if(iabs(c) < ((i128)1<<47)){ if(d_mustnot<3)printf("DIV nan-but-small c=%lld d=%lld\n",(long long)c,(long long)d); d_mustnot++; }
  }
  printf("n=%ld mul: acc_bad=%ld nan_but_fits=%ld notnan_but_outofrange=%ld (P fits:%ld, not:%ld) | div: zero_bad=%ld acc_bad=%ld nan_but_small=%ld traps=%ld\n",n,m_acc,m_mustnot,m_must,cls_fit,cls_over,d_zero,d_acc,d_mustnot,d_trap);
}
