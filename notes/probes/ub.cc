#include <cstdio>
#include <cstdint>
#include <climits>
extern "C" void __ubsan_get_current_report_data(const char **OutIssueKind, const char **OutMessage, const char **OutFilename, unsigned *OutLine, unsigned *OutCol, char **OutMemoryAddr);
static int nrep=0;
extern "C" void __ubsan_on_report(void){
  const char *k,*m,*f; unsigned l,c; char*a;
  __ubsan_get_current_report_data(&k,&m,&f,&l,&c,&a);
  nrep++;
  fprintf(stdout,"HOOK kind=%s msg=%s file=%s:%u:%u\n",k,m,f,l,c);
}
__attribute__((noinline)) int64_t add(int64_t a,int64_t b){ return a+b; }
__attribute__((noinline)) int64_t shl(int64_t a,int b){ return a<<b; }
int main(){
  volatile int64_t x=INT64_MAX;
  printf("%lld\n",(long long)add(x,1));
  printf("%lld\n",(long long)shl(x,3));
  printf("nrep=%d\n",nrep);
}
