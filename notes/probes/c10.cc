#include <fixedmath/fixed_math.hpp>
#include <cstdio>
#include <cstdint>
#include <cmath>
#include <random>
using namespace fixedmath;
typedef long double ld;
static const ld ULP = 1.0L/65536;
static bool isn(int64_t v){ return v==INT64_MAX || v==-INT64_MAX; }
int main(){
  const ld PI = 3.14159265358979323846264338327950288L;
  int64_t lim = (int64_t)floorl(PI*65536);
  printf("lim=%lld count=%lld\n",(long long)lim,(long long)(2*lim+1));
  ld worst=0; int64_t wr=0; long nanc=0, badnan=0, badodd=0;
  for(int64_t r=-lim;r<=lim;r++){
    int64_t f = tan(as_fixed(r)).v; int64_t fm = tan(as_fixed(-r)).v;
    int64_t ar = r<0?-r:r; bool pole = (ar % 205887) == 102944;
    if(isn(f)!=pole){ if(badnan<5) printf("NAN mismatch r=%lld f=%lld pole=%d\n",(long long)r,(long long)f,pole); badnan++; }
    if(isn(f)) { nanc++; if(!(isn(fm))) badodd++; continue; }
    if(fm != -f){ if(badodd<5) printf("ODD r=%lld f=%lld fm=%lld\n",(long long)r,(long long)f,(long long)fm); badodd++; }
    ld x=(ld)r/65536; ld t=tanl(x); ld e=fabsl((ld)f/65536 - t)/ (ULP*(1+t*t));
    if(e>worst){worst=e;wr=r;}
  }
  printf("tan worst err/(ulp*(1+t^2)) = %.4Lf at r=%lld (f=%lld true=%.6Lf) nan=%ld badnan=%ld badodd=%ld\n",worst,(long long)wr,(long long)tan(as_fixed(wr)).v, tanl((ld)wr/65536)*65536, nanc,badnan,badodd);
  // distribution of ratio near the worst
  // large args: odd, period, pole
  std::mt19937_64 g(3); long n=0,bo=0,bp=0,bn=0;
  for(int i=0;i<20000000;i++){
    int bits=1+g()%62; int64_t x=(int64_t)(g()>>(64-bits)); 
    if(i%7==0){ int64_t k=(int64_t)(g()% ((1ull<<61)/205887)); x = k*205887+102944; }
    int64_t f=tan(as_fixed(x)).v, fm=tan(as_fixed(-x)).v; n++;
    bool pole=(x%205887)==102944;
    if(isn(f)!=pole){ if(bn<5)printf("L NAN x=%lld f=%lld pole=%d\n",(long long)x,(long long)f,pole); bn++;}
    if(isn(f)? !isn(fm) : fm!=-f){ if(bo<5)printf("L ODD x=%lld f=%lld fm=%lld\n",(long long)x,(long long)f,(long long)fm); bo++; }
    int64_t kmax=(((1ll<<62)-1)-x)/205887; if(kmax<=0) continue; int64_t k=(int64_t)(g()%kmax)+1; if(g()%3==0) k=1+g()%4;
    int64_t y=x+k*205887; int64_t fy=tan(as_fixed(y)).v;
    if(fy!=f){ if(bp<5)printf("L PERIOD x=%lld k=%lld f=%lld fy=%lld\n",(long long)x,(long long)k,(long long)f,(long long)fy); bp++; }
  }
  printf("large n=%ld badodd=%ld badperiod=%ld badnan=%ld\n",n,bo,bp,bn);
}
