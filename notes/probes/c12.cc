#include <fixedmath/fixed_math.hpp>
#include <cstdio>
#include <cstdint>
#include <cmath>
#include <random>
using namespace fixedmath;
typedef long double ld;
static const ld U = 1.0L/65536;
static bool isn(int64_t v){ return v==INT64_MAX || v==-INT64_MAX; }
#ifdef FIXEDMATH_ENABLE_SQRT_ABACUS_ALGO
#define ALGO "abacus"
#else
#define ALGO "stdsqrt"
#endif
int main(){
  printf("algo=%s\n",ALGO);
  ld worst=0; int64_t wr=0; long viol=0,odd=0,mono=0,acosbad=0,nanbad=0; int64_t prev=INT64_MIN; ld worst_plain=0; int64_t maxdrop=0; int64_t wacos=0;
  for(int64_t r=-65536;r<=65536;r++){
    int64_t f=asin(as_fixed(r)).v, fm=asin(as_fixed(-r)).v, fc=acos(as_fixed(r)).v;
    if(isn(f)||isn(fc)){nanbad++;continue;}
    ld x=(ld)r/65536; ld lo=fmaxl(x-2*U,-1), hi=fminl(x+2*U,1);
    ld a=(ld)f/65536; ld d=0; if(a<asinl(lo)) d=asinl(lo)-a; else if(a>asinl(hi)) d=a-asinl(hi);
    if(d>worst){worst=d;wr=r;} if(d>4*U)viol++;
    ld pe=fabsl(a-asinl(x)); if(pe>worst_plain)worst_plain=pe;
    if(fm!=-f)odd++;
    if(prev!=INT64_MIN && f<prev){ mono++; if(prev-f>maxdrop)maxdrop=prev-f; } if(f>prev) prev=f;
    int64_t ex=102944 - f; int64_t dd = fc-ex; if(dd<0)dd=-dd; if(dd>wacos)wacos=dd; if(dd>1)acosbad++;
    if(fc < -1 || fc > 205887+1) acosbad++;
  }
  printf("asin: worst dist to allowed interval=%.3Lf ulp at r=%lld viol=%ld; plain worst err=%.3Lf ulp; odd=%ld mono_viol=%ld maxdrop=%lld acosbad=%ld (max |acos-(pi/2-asin)|=%lld) nan_inside=%ld\n",worst/U,(long long)wr,viol,worst_plain/U,odd,mono,(long long)maxdrop,acosbad,(long long)wacos,nanbad);
  // outside
  std::mt19937_64 g(9); long bad=0;
  for(int i=0;i<5000000;i++){ int b=1+g()%62; int64_t v=65537 + (int64_t)(g()>>(64-b)); if(v<=65536) continue; if(!isn(asin(as_fixed(v)).v)||!isn(asin(as_fixed(-v)).v)||!isn(acos(as_fixed(v)).v)||!isn(acos(as_fixed(-v)).v)) {if(bad<5)printf("OUT v=%lld asin=%lld\n",(long long)v,(long long)asin(as_fixed(v)).v);bad++;} }
  printf("outside bad=%ld; asin(65537)nan=%d asin(NaN)=%lld asin(-NaN)=%lld acos(max)=%lld\n",bad,isn(asin(as_fixed(65537)).v),(long long)asin(as_fixed(INT64_MAX)).v,(long long)asin(as_fixed(-INT64_MAX)).v,(long long)acos(as_fixed(0x7FFFFFFFFFFFFFFEll)).v);
}
