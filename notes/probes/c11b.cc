#include <fixedmath/fixed_math.hpp>
#include <cstdio>
#include <cstdint>
#include <cmath>
#include <random>
using namespace fixedmath;
typedef long double ld;
static bool isn(int64_t v){ return v==INT64_MAX || v==-INT64_MAX; }
int main(){
  std::mt19937_64 g(5);
  // monotonic: exhaustive adjacent for raw in [0, 2^22], and running max check
  int64_t runmax=INT64_MIN; long monoviol=0; int64_t worstdrop=0;
  for(int64_t r=0;r<(1ll<<23);r++){ int64_t f=atan(as_fixed(r)).v; if(f>runmax)runmax=f; if(runmax-f>worstdrop)worstdrop=runmax-f; if(runmax - f > 2) monoviol++; }
  printf("atan mono exhaustive [0,2^23): worst drop below running max = %lld ulp, viol(>2)=%ld\n",(long long)worstdrop,monoviol);
  // random pairs up to 2^45
  long mv=0; int64_t wd=0;
  for(int i=0;i<20000000;i++){ int b=1+g()%45; int64_t x=(int64_t)(g()>>(64-b)); int64_t d = (int64_t)(g()>>(64-(1+g()%b))); int64_t y=x+d; if(y>=(1ll<<45)) continue; int64_t fx=atan(as_fixed(x)).v, fy=atan(as_fixed(y)).v; if(fx-fy>wd)wd=fx-fy; if(fx>fy+2)mv++; }
  printf("atan mono random: worst drop=%lld viol=%ld\n",(long long)wd,mv);
  // atan2
  const ld PI=3.14159265358979323846264338327950288L;
  ld worst=0; int64_t wy=0,wx=0; long n=0,viol=0,signbad=0,nanbad=0; 
  ld worst_by_ratio[64]={0}; long viol_by_ratio[64]={0}, cnt_by_ratio[64]={0};
  for(int i=0;i<30000000;i++){
    int by=1+g()%47, bx=1+g()%47; int64_t y=(int64_t)(g()>>(64-by)), x=(int64_t)(g()>>(64-bx)); if(g()&1)y=-y; if(g()&1)x=-x;
    if(x==0||y==0) continue; // axis handled separately
    int64_t f=atan2(as_fixed(y),as_fixed(x)).v; n++;
    if(isn(f)){nanbad++; continue;}
    ld t=atan2l((ld)y,(ld)x); ld e=fabsl((ld)f/65536 - t);
    // wrap-around near +-pi? true angle in (-pi,pi]; allow no wrap
    int rb; { ld q=fabsl((ld)y/(ld)x); rb = (int)floorl(log2l(q))+32; if(rb<0)rb=0; if(rb>63)rb=63; }
    cnt_by_ratio[rb]++; if(e>worst_by_ratio[rb])worst_by_ratio[rb]=e;
    if(e>8e-5L){viol++; viol_by_ratio[rb]++;}
    if(e>worst){worst=e;wy=y;wx=x;}
    if((y>0&&f<0)||(y<0&&f>0)) { if(signbad<5)printf("SIGN y=%lld x=%lld f=%lld\n",(long long)y,(long long)x,(long long)f); signbad++; }
  }
  printf("atan2 n=%ld worst=%.3Le at y=%lld x=%lld viol=%ld signbad=%ld nan=%ld\n",n,worst,(long long)wy,(long long)wx,viol,signbad,nanbad);
  for(int b=0;b<64;b++) if(cnt_by_ratio[b]) printf(" log2|y/x| in [%d,%d): n=%ld worst=%.3Le viol=%ld\n",b-32,b-31,cnt_by_ratio[b],worst_by_ratio[b],viol_by_ratio[b]);
  // axis
  long axbad=0;
  for(int i=0;i<1000000;i++){ int b=1+g()%47; int64_t v=(int64_t)(g()>>(64-b)); if(v==0)continue; 
    if(atan2(as_fixed(v),as_fixed(0)).v!=102944) axbad++; if(atan2(as_fixed(-v),as_fixed(0)).v!=-102944) axbad++;
    if(atan2(as_fixed(0),as_fixed(v)).v!=0) axbad++; if(atan2(as_fixed(0),as_fixed(-v)).v!=205887) {axbad++; }
  }
  printf("axis bad=%ld ; atan2(0,0) nan=%d\n",axbad,isn(atan2(as_fixed(0),as_fixed(0)).v));
}
