#include <fixedmath/fixed_math.hpp>
#include <cstdio>
#include <cstdint>
#include <cmath>
using namespace fixedmath;
typedef long double ld;
static const ld U=1.0L/65536, PI=3.14159265358979323846264338327950288L;
static bool isn(int64_t v){ return v==INT64_MAX || v==-INT64_MAX; }
int main(){
  ld ws=0,wc=0,wt=0; int ds=0,dc=0,dt=0; long tv=0, typebad=0; int tfirst=0,tlast=0;
  for(int d=-360; d<=360; d++){
    ld x=d*PI/180; ld ts=sinl(x), tc=cosl(x);
    int64_t s=sin_angle(d).v, c=cos_angle(d).v, t=tan_angle(d).v;
    ld es=fabsl((ld)s/65536-ts) - powl(fabsl(asinl(ts)),9)/362880, ec=fabsl((ld)c/65536-tc)-powl(fabsl(asinl(tc)),9)/362880;
    if(es>ws){ws=es;ds=d;} if(ec>wc){wc=ec;dc=d;}
    if(d%90!=0 || d%180==0){ ld tt=tanl(x); if(isn(t)){ printf("tan_angle(%d) NaN\n",d);} else { ld et=fabsl((ld)t/65536-tt)/(U*(1+tt*tt)); if(et>wt){wt=et;dt=d;} if(et>5){ if(!tv)tfirst=d; tlast=d; tv++; } } }
    else printf("tan_angle(%d)=%lld\n",d,(long long)t);
    // same result across types
    #define CHK(T) if(d>=(int)std::numeric_limits<T>::lowest() && d<=(long long)std::numeric_limits<T>::max()){ if(sin_angle((T)d).v!=s||cos_angle((T)d).v!=c||tan_angle((T)d).v!=t) typebad++; }
    CHK(int8_t) CHK(int16_t) CHK(int32_t) CHK(int64_t) CHK(float)
    if(d>=0){ CHK(uint8_t) CHK(uint16_t) CHK(uint32_t) CHK(uint64_t) }
    fixed_t fd{d}; if(sin_angle(fd).v!=s||cos_angle(fd).v!=c||tan_angle(fd).v!=t) typebad++;
  }
  printf("sin_angle worst (err - r^9/9!)=%.3Lf ulp @%d ; cos_angle %.3Lf ulp @%d ; tan_angle worst ratio %.3Lf @%d viol(>5)=%ld [%d..%d]; typebad=%ld\n",ws/U,ds,wc/U,dc,wt,dt,tv,tfirst,tlast,typebad);
}
