/* UB observation inside the libFuzzer target: the stock UBSan runtime (it is part of clang's ASan
 * runtime, so harness-owned handlers cannot be linked here) calls __ubsan_on_report for every
 * report; the details are fetched with __ubsan_get_current_report_data. */
#include <stdint.h>
#include <string.h>
struct CutUbEvent { const char* kind; const char* file; uint32_t line, col; };
#define MAXEV 16
static struct CutUbEvent ev[MAXEV];
static int nev;
static char kinds[MAXEV][48], files[MAXEV][256];
void __ubsan_get_current_report_data(const char** OutIssueKind, const char** OutMessage, const char** OutFilename, unsigned* OutLine, unsigned* OutCol, char** OutMemoryAddr);
void __ubsan_on_report(void)
{
  const char *kind = 0, *msg = 0, *file = 0; unsigned line = 0, col = 0; char* addr = 0;
  __ubsan_get_current_report_data(&kind, &msg, &file, &line, &col, &addr);
  if (nev < MAXEV) {
    strncpy(kinds[nev], kind ? kind : "?", sizeof kinds[nev] - 1); strncpy(files[nev], file ? file : "?", sizeof files[nev] - 1);
    ev[nev].kind = kinds[nev]; ev[nev].file = files[nev]; ev[nev].line = line; ev[nev].col = col;
  }
  nev++;
}
int cut_ub_count(void) { return nev; }
const struct CutUbEvent* cut_ub_events(void) { return ev; }
void cut_ub_reset(void) { nev = 0; }
