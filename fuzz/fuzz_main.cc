// libFuzzer target (engine E3). The input bytes are the random-word stream of the same decoders
// rapidcheck drives; the oracles of the selected clauses run inside the target. Coverage and
// value-profile feedback comes from the library code (compiled with sanitizer checks, whose
// failure branches are ordinary edges) and from the decoders. A failing case prints its clause
// and arguments and traps; the driver turns the saved artifact back into a replayable case.
#include "../harness/fuzzsel.hpp"
#include "../harness/meta.hpp"
extern "C" const CutEntry* cut_table(int*);
extern "C" const char* cut_config(void);
extern "C" int cut_ub_count(void);
extern "C" const CutUbEvent* cut_ub_events(void);
extern "C" void cut_ub_reset(void);
static Ctx* g_ctx; static std::vector<const Clause*> g_cls;
static void load_kf_file(Ctx& ctx, const char* path)
{
  FILE* f = fopen(path, "r"); if (!f) return; char line[2048];
  while (fgets(line, sizeof line, f)) { if (line[0] == '#' || line[0] == '\n') continue; std::istringstream ss(line); KnownFinding k; ss >> k.index >> k.property >> k.clause >> k.cfg >> k.kind;
    if (k.kind == "box") { int n; ss >> n; for (int i = 0; i < n; ++i) { KfRange r; std::string ar; long long lo, hi; ss >> r.idx >> ar >> lo >> hi; r.abs = ar == "A"; r.lo = lo; r.hi = hi; k.box.push_back(r); } }
    else if (k.kind == "site") ss >> k.site_kind >> k.site_file >> k.site_line;
    ctx.kfs.push_back(k); }
  fclose(f);
}
void grid_register(); void grid_register2();
extern "C" int LLVMFuzzerInitialize(int*, char***)
{
  grid_register(); grid_register2();
  g_fuzz_mode = true;
  g_ctx = new Ctx(); Cut c; c.name = cut_config(); c.path = "(static)"; c.table = cut_table(&c.n);
  if (c.n != E_COUNT) { fprintf(stderr, "fuzz: entry count mismatch\n"); abort(); }
  c.ub_count = cut_ub_count; c.ub_events = cut_ub_events; c.ub_reset = cut_ub_reset; c.sanitized = true;
  c.phi = c.table[E_k_phi].fn(0, 0, 0); c.pidiv2 = c.table[E_k_pidiv2].fn(0, 0, 0); c.pidiv4 = c.table[E_k_pidiv4].fn(0, 0, 0); c.kone = c.table[E_k_one].fn(0, 0, 0);
  g_dc.phi = c.phi; g_dc.pidiv2 = c.pidiv2; g_dc.pidiv4 = c.pidiv4;
  g_ctx->cuts.push_back(c);
  const char* cl = getenv("FUZZ_CLAUSES"); g_cls = fuzz_clauses(cl ? cl : "C07.entry");
  if (g_cls.empty()) { fprintf(stderr, "fuzz: no clauses selected\n"); abort(); }
  if (const char* kf = getenv("FUZZ_KF")) load_kf_file(*g_ctx, kf);
  return 0;
}
extern "C" int LLVMFuzzerTestOneInput(const uint8_t* data, size_t size)
{
  const Clause* cl; Args a;
  if (!fuzz_select(*g_ctx, g_cls, data, size, cl, a)) return 0;
  // in the fuzz binary traps are left to libFuzzer/ASan (the artifact is the reproducer)
  g_ctx->fail_first = Failure(); g_ctx->fail_last = Failure();
  if (!g_ctx->evaluate(*cl, a)) {
    fprintf(stderr, "FUZZ-FAIL %s %s on %s: %s\n", cl->id, args_json(a).c_str(), g_ctx->fail_last.cfg.c_str(), g_ctx->fail_last.what.c_str());
    fflush(stderr);
    __builtin_trap();
  }
  if (const char* st = getenv("FUZZ_STATS")) { static uint64_t n = 0; if ((++n & 0xffff) == 0) { FILE* f = fopen(st, "w"); if (f) { fprintf(f, "%llu %llu %llu\n", (unsigned long long)g_ctx->evals, (unsigned long long)g_ctx->nontrivial, (unsigned long long)g_ctx->excluded_known); fclose(f); } } }
  return 0;
}
