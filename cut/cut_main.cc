// Code under test: thin extern "C" wrappers around every public entry point of fixed_math,
// compiled from the working tree once per build configuration into cut_<cfg>.so.
#include "cut_helpers.h"
#include "cut_api.h"
#ifndef CUT_CONFIG
#define CUT_CONFIG "unknown"
#endif
volatile int64_t g_cut_sink;
// library calls made from a static initialiser of a translation unit linked before fixed_math.cc
static int64_t probe_now(int64_t i) { switch (i & 7) { case 0: return cos_angle_aprox(0).v; case 1: return cos_angle_aprox(60).v; case 2: return sin_angle_aprox(90).v; case 3: return sin_angle_aprox(30).v; case 4: return sqrt_aprox(as_fixed(4 << 16)).v; case 5: return atan_index_aprox(as_fixed(65536)).v; case 6: return cos_angle_aprox(-45).v; default: return tan_tab(32).v; } }
struct InitProbe { int64_t v[8]; InitProbe() { for (int i = 0; i < 8; ++i) v[i] = probe_now(i); } };
static InitProbe g_probe;
#define CE 0
#define CESQ 1
#define RT 2
#define ENTRY(name, args, ret, flags, ...) \
  extern "C" __attribute__((visibility("default"), noinline)) int64_t fm_##name(int64_t a, int64_t b, int64_t c) \
  { (void)a; (void)b; (void)c; return static_cast<int64_t>(__VA_ARGS__); }
#include "entries.def"
#undef ENTRY
#undef CE
#undef CESQ
#undef RT
#define ENTRY(name, args, ret, flags, ...) { #name, args, ret, #flags, &fm_##name },
static const CutEntry table_[] = {
#include "entries.def"
};
#undef ENTRY
extern "C" __attribute__((visibility("default"))) const CutEntry* cut_table(int* n)
  { *n = static_cast<int>(sizeof(table_) / sizeof(table_[0])); return table_; }
extern "C" __attribute__((visibility("default"))) const char* cut_config(void) { return CUT_CONFIG; }
