// Code under test: thin extern "C" wrappers around every public entry point of fixed_math,
// compiled from the working tree once per build configuration into cut_<cfg>.so.
#include "cut_helpers.h"
#include "cut_api.h"
#ifndef CUT_CONFIG
#define CUT_CONFIG "unknown"
#endif
#define CE 0
#define CESQ 1
#define RT 2
#define ENTRY(name, args, ret, flags, ...) \
  extern "C" __attribute__((visibility("default"), noinline)) int64_t fm_##name(int64_t a, int64_t b, int64_t c) \
  { (void)a; (void)b; (void)c; return static_cast<int64_t>(__VA_ARGS__); }
#include "entries.def"
#undef ENTRY
#undef CE
#undef CESQ
#undef RT
#define ENTRY(name, args, ret, flags, ...) { #name, args, ret, #flags, &fm_##name },
static const CutEntry table_[] = {
#include "entries.def"
};
#undef ENTRY
extern "C" __attribute__((visibility("default"))) const CutEntry* cut_table(int* n)
  { *n = static_cast<int>(sizeof(table_) / sizeof(table_[0])); return table_; }
extern "C" __attribute__((visibility("default"))) const char* cut_config(void) { return CUT_CONFIG; }
