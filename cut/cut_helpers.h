// Helpers shared by the run-time wrappers (cut_main.cc) and the constant-evaluation TUs.
// All are templates so that a body that is never a constant expression (e.g. one that calls a
// non-constexpr library operator) is diagnosed per *use*, not at definition.
#pragma once
#include <fixedmath/fixed_math.hpp>
#include <cstdint>
#pragma GCC diagnostic ignored "-Wdeprecated-declarations"
using namespace fixedmath;
#define F(v) as_fixed(v)

template<class D = void> constexpr float  h_f32(int64_t a) { return __builtin_bit_cast(float, static_cast<uint32_t>(a)); }
template<class D = void> constexpr double h_f64(int64_t a) { return __builtin_bit_cast(double, a); }
template<class D = void> constexpr int64_t h_bits32(float f) { return static_cast<int64_t>(__builtin_bit_cast(uint32_t, f)); }
template<class D = void> constexpr int64_t h_bits64(double d) { return __builtin_bit_cast(int64_t, d); }

template<class T> constexpr int64_t h_addeq(int64_t a, T t) { fixed_t x = as_fixed(a); x += t; return x.v; }
template<class T> constexpr int64_t h_subeq(int64_t a, T t) { fixed_t x = as_fixed(a); x -= t; return x.v; }
template<class T> constexpr int64_t h_muleq(int64_t a, T t) { fixed_t x = as_fixed(a); x *= t; return x.v; }
template<class T> constexpr int64_t h_diveq(int64_t a, T t) { fixed_t x = as_fixed(a); x /= t; return x.v; }

template<class D = void> constexpr int64_t h_loop_add(int64_t a, int64_t b, int64_t n)
  { fixed_t acc = as_fixed(a); for (int64_t i = 0; i < n; ++i) acc += as_fixed(b); return acc.v; }
template<class D = void> constexpr int64_t h_loop_sub(int64_t a, int64_t b, int64_t n)
  { fixed_t acc = as_fixed(a); for (int64_t i = 0; i < n; ++i) acc -= as_fixed(b); return acc.v; }
template<class D = void> constexpr int64_t h_chain(int64_t a, int64_t b, int64_t c)
  { fixed_t x = as_fixed(a); x += as_fixed(b); x -= as_fixed(c); return x.v; }

// call-context shapes added after round 4 of the seeded changes
template<class D = void> constexpr int64_t h_addeq_self(int64_t a) { fixed_t x = as_fixed(a); x += x; return x.v; }           // both operands are the same object
template<class D = void> constexpr int64_t h_subeq_self(int64_t a) { fixed_t x = as_fixed(a); x -= x; return x.v; }
template<class D = void> constexpr int64_t h_muleq_self(int64_t a) { fixed_t x = as_fixed(a); x *= x; return x.v; }
extern volatile int64_t g_cut_sink;   // keeps the first of two uses alive (run-time entries only)
template<class T> inline int64_t h_to_twice(int64_t a, int64_t b) { fixed_t x = as_fixed(a); T p = static_cast<T>(x); g_cut_sink = static_cast<int64_t>(p); x += as_fixed(b); T q = static_cast<T>(x); return static_cast<int64_t>(q); }
template<class T> inline int64_t h_f2a_twice(int64_t a, int64_t b) { fixed_t x = as_fixed(a); T p = fixed_to_arithmetic<T>(x); g_cut_sink = static_cast<int64_t>(p); x += as_fixed(b); T q = fixed_to_arithmetic<T>(x); return static_cast<int64_t>(q); }
template<class D = void> inline int64_t h_shl_twice(int64_t a, int64_t b, int64_t r) { fixed_t x = as_fixed(a); fixed_t p = x << static_cast<int>(r); g_cut_sink = p.v; x += as_fixed(b); fixed_t q = x << static_cast<int>(r); return q.v; }
template<class D = void> inline int64_t h_shr_twice(int64_t a, int64_t b, int64_t r) { fixed_t x = as_fixed(a); fixed_t p = x >> static_cast<int>(r); g_cut_sink = p.v; x += as_fixed(b); fixed_t q = x >> static_cast<int>(r); return q.v; }
template<class D = void> inline int64_t h_neg_twice(int64_t a, int64_t b) { fixed_t x = as_fixed(a); fixed_t p = abs(x); g_cut_sink = p.v; x += as_fixed(b); fixed_t q = abs(x); return q.v; }
