// Helpers shared by the run-time wrappers (cut_main.cc) and the constant-evaluation TUs.
// All are templates so that a body that is never a constant expression (e.g. one that calls a
// non-constexpr library operator) is diagnosed per *use*, not at definition.
#pragma once
#include <fixedmath/fixed_math.hpp>
#include <cstdint>
#pragma GCC diagnostic ignored "-Wdeprecated-declarations"
using namespace fixedmath;
#define F(v) as_fixed(v)

template<class D = void> constexpr float  h_f32(int64_t a) { return __builtin_bit_cast(float, static_cast<uint32_t>(a)); }
template<class D = void> constexpr double h_f64(int64_t a) { return __builtin_bit_cast(double, a); }
template<class D = void> constexpr int64_t h_bits32(float f) { return static_cast<int64_t>(__builtin_bit_cast(uint32_t, f)); }
template<class D = void> constexpr int64_t h_bits64(double d) { return __builtin_bit_cast(int64_t, d); }

template<class T> constexpr int64_t h_addeq(int64_t a, T t) { fixed_t x = as_fixed(a); x += t; return x.v; }
template<class T> constexpr int64_t h_subeq(int64_t a, T t) { fixed_t x = as_fixed(a); x -= t; return x.v; }
template<class T> constexpr int64_t h_muleq(int64_t a, T t) { fixed_t x = as_fixed(a); x *= t; return x.v; }
template<class T> constexpr int64_t h_diveq(int64_t a, T t) { fixed_t x = as_fixed(a); x /= t; return x.v; }

template<class D = void> constexpr int64_t h_loop_add(int64_t a, int64_t b, int64_t n)
  { fixed_t acc = as_fixed(a); for (int64_t i = 0; i < n; ++i) acc += as_fixed(b); return acc.v; }
template<class D = void> constexpr int64_t h_loop_sub(int64_t a, int64_t b, int64_t n)
  { fixed_t acc = as_fixed(a); for (int64_t i = 0; i < n; ++i) acc -= as_fixed(b); return acc.v; }
template<class D = void> constexpr int64_t h_chain(int64_t a, int64_t b, int64_t c)
  { fixed_t x = as_fixed(a); x += as_fixed(b); x -= as_fixed(c); return x.v; }
