/* Harness-owned UBSan handlers for the sanitized (family S) code-under-test objects.
 * The objects are compiled with -fsanitize=... but NOT linked against a sanitizer runtime; the
 * compiler-emitted calls land here. Each handler records (kind, file, line, col) and returns, so
 * one process can observe any number of events at any number of sites and attribute them per call. */
#include <stdint.h>
struct SrcLoc { const char* file; uint32_t line; uint32_t col; };
struct CutUbEvent { const char* kind; const char* file; uint32_t line, col; };
#define MAXEV 16
static __thread struct CutUbEvent ev[MAXEV];
static __thread int nev;
#define VIS __attribute__((visibility("default")))
VIS int cut_ub_count(void) { return nev; }
VIS const struct CutUbEvent* cut_ub_events(void) { return ev; }
VIS void cut_ub_reset(void) { nev = 0; }
static void rec(const char* k, void* d)
{
  if (nev < MAXEV) { struct SrcLoc* l = (struct SrcLoc*)d; ev[nev].kind = k; ev[nev].file = l->file; ev[nev].line = l->line; ev[nev].col = l->col; }
  nev++;
}
#define H2(n) VIS void __ubsan_handle_##n(void* d, uintptr_t a, uintptr_t b) { (void)a; (void)b; rec(#n, d); }
#define H1(n) VIS void __ubsan_handle_##n(void* d, uintptr_t a) { (void)a; rec(#n, d); }
#define H0(n) VIS void __ubsan_handle_##n(void* d) { rec(#n, d); }
H2(add_overflow) H2(sub_overflow) H2(mul_overflow) H2(divrem_overflow) H2(shift_out_of_bounds)
H1(negate_overflow) H1(out_of_bounds) H1(load_invalid_value) H1(float_cast_overflow)
H1(pointer_overflow_unused)
H0(builtin_unreachable) H0(missing_return) H0(invalid_builtin)
/* float_cast_overflow has a v2 data layout in clang (no source location first for old ABI); the
 * location-first layout is used by gcc 12 and clang 14 (verified in notes/probes). */
