// C ABI between a code-under-test shared object and the harness.
#pragma once
#include <stdint.h>
#ifdef __cplusplus
extern "C" {
#endif
typedef int64_t (*cut_fn)(int64_t, int64_t, int64_t);
struct CutEntry { const char* name; const char* args; const char* ret; const char* flags; cut_fn fn; };
struct CutUbEvent { const char* kind; const char* file; uint32_t line, col; };
// exported by every cut_<cfg>.so
const struct CutEntry* cut_table(int* n);
const char* cut_config(void);
// exported only by sanitized (family S) objects
int cut_ub_count(void);
const struct CutUbEvent* cut_ub_events(void);
void cut_ub_reset(void);
#ifdef __cplusplus
}
#endif
