// Constant-evaluation view of the entry-point inventory: ce_<name>(a,b,c) for every entry that
// the library is expected to accept in a constant expression (flags CE, and CESQ where
// sqrt_constexpr_available). Included by the generated consteval TUs (engine E4).
#pragma once
#include "cut_helpers.h"
#define ENTRY_CE(name, ...)   template<int Dummy_ = 0> constexpr int64_t ce_##name(int64_t a, int64_t b, int64_t c) { (void)a; (void)b; (void)c; return static_cast<int64_t>(__VA_ARGS__); }
#define ENTRY_CESQ(name, ...) ENTRY_CE(name, __VA_ARGS__)
#define ENTRY_RT(name, ...)
#define ENTRY(name, args, ret, flags, ...) ENTRY_##flags(name, __VA_ARGS__)
#include "entries.def"
#undef ENTRY
